package main

// Evaluation of Go expressions of the code under verification.

import (
	"fmt"
	"go/ast"
	"go/constant"
	"go/token"
	"go/types"
	"math"
	"math/big"
	"strings"
)

func (fx *FuncCtx) typeOf(e ast.Expr) types.Type {
	if tv, ok := fx.info.Types[e]; ok && tv.Type != nil {
		return tv.Type
	}
	if id, ok := e.(*ast.Ident); ok {
		if o := fx.info.ObjectOf(id); o != nil {
			return o.Type()
		}
	}
	fx.unsupportedf("no type for %s", fx.src(e))
	return nil
}

func (fx *FuncCtx) constVal(cv constant.Value, t types.Type) Val {
	switch cv.Kind() {
	case constant.Bool:
		if constant.BoolVal(cv) {
			return tTrue
		}
		return tFalse
	case constant.String:
		return fx.strLit(constant.StringVal(cv))
	case constant.Int:
		if s, ok := isFloat(t); ok {
			f, _ := constant.Float64Val(cv)
			return fx.floatConst(f, s)
		}
		if s, ok := isComplex(t); ok {
			f, _ := constant.Float64Val(cv)
			return fx.complexConst(f, 0, s)
		}
		if i, ok := constant.Int64Val(cv); ok {
			return IntLit(i)
		}
		b, _ := new(big.Int).SetString(cv.ExactString(), 10)
		return BigLit(b)
	case constant.Float:
		if s, ok := isFloat(t); ok {
			f, _ := constant.Float64Val(cv)
			if s == SF32 {
				f32, _ := constant.Float32Val(cv)
				f = float64(f32)
			}
			return fx.floatConst(f, s)
		}
		if s, ok := isComplex(t); ok {
			f, _ := constant.Float64Val(cv)
			return fx.complexConst(f, 0, s)
		}
		if _, ok := intInfo(t); ok {
			if i, ok := constant.Int64Val(constant.ToInt(cv)); ok {
				return IntLit(i)
			}
		}
	case constant.Complex:
		if s, ok := isComplex(t); ok {
			re, _ := constant.Float64Val(constant.Real(cv))
			im, _ := constant.Float64Val(constant.Imag(cv))
			return fx.complexConst(re, im, s)
		}
	}
	fx.unsupportedf("constant %s of type %s", cv, t)
	return nil
}

func (fx *FuncCtx) complexConst(re, im float64, s Sort) Term {
	fs := SF64
	if s == SC64 {
		fs = SF32
	}
	fn := "mkc_" + string(s)
	fx.declFun(fn, []Sort{fs, fs}, s)
	return app(s, fn, fx.floatConst(re, fs), fx.floatConst(im, fs))
}

func (fx *FuncCtx) evalTerm(st *State, e ast.Expr) Term {
	v := fx.eval(st, e)
	t, ok := v.(Term)
	if !ok {
		if p, ok := v.(PtrV); ok {
			return p.Ref
		}
		if m, ok := v.(MapV); ok {
			return m.Ref
		}
		if i, ok := v.(IfaceV); ok {
			return i.T
		}
		fx.unsupportedf("expected scalar for %s, got %s", fx.src(e), valString(v))
	}
	return t
}

func (fx *FuncCtx) lookupVar(st *State, obj types.Object, id *ast.Ident) Val {
	if v, ok := st.vars[obj]; ok {
		if p, ok := v.(heapVar); ok {
			return fx.loadHeap(st, p.prefix, p.ref, obj.Type())
		}
		return v
	}
	// package-level variable
	if vr, ok := obj.(*types.Var); ok && vr.Parent() == vr.Pkg().Scope() {
		return fx.globalVar(st, vr)
	}
	fx.unsupportedf("unbound variable %s", id.Name)
	return nil
}

// heapVar marks a local whose address is taken: it lives in the heap.
type heapVar struct {
	prefix string
	ref    Term
}

func (fx *FuncCtx) globalVar(st *State, vr *types.Var) Val {
	// Package-level variables are modelled as unknown but fixed values
	// (error values, tables). Mutable globals are outside the subset.
	key := "g_" + smtName(vr.Pkg().Name()+"_"+vr.Name())
	if v, ok := fx.eng.globalVals(fx, key, vr); ok {
		return v
	}
	v, facts := fx.freshVal(key, vr.Type())
	for _, f := range facts {
		st.assume(f)
	}
	return v
}

func (fx *FuncCtx) eval(st *State, e ast.Expr) Val {
	if tv, ok := fx.info.Types[e]; ok && tv.Value != nil {
		return fx.constVal(tv.Value, tv.Type)
	}
	switch x := e.(type) {
	case *ast.ParenExpr:
		return fx.eval(st, x.X)
	case *ast.Ident:
		if x.Name == "nil" {
			if t := fx.info.Types[e].Type; t != nil {
				if _, isNil := t.(*types.Basic); !isNil {
					return fx.zeroVal(t)
				}
			}
			return NilV{}
		}
		if x.Name == "true" {
			return tTrue
		}
		if x.Name == "false" {
			return tFalse
		}
		obj := fx.info.ObjectOf(x)
		if obj == nil {
			fx.unsupportedf("unresolved identifier %s", x.Name)
		}
		if _, ok := obj.(*types.Func); ok {
			return FuncV{Name: obj.Name(), Obj: obj}
		}
		return fx.lookupVar(st, obj, x)
	case *ast.BasicLit:
		fx.unsupportedf("literal without constant value %s", x.Value)
	case *ast.UnaryExpr:
		return fx.evalUnary(st, x)
	case *ast.BinaryExpr:
		return fx.evalBinary(st, x)
	case *ast.CallExpr:
		return fx.evalCall(st, x)
	case *ast.IndexExpr:
		return fx.evalIndex(st, x)
	case *ast.SliceExpr:
		return fx.evalSliceExpr(st, x)
	case *ast.SelectorExpr:
		return fx.evalSelector(st, x)
	case *ast.StarExpr:
		p := fx.eval(st, x.X)
		pv, ok := p.(PtrV)
		if !ok {
			fx.unsupportedf("deref of %s", valString(p))
		}
		fx.oblige(st, "nil", Not(Eq(pv.Ref, IntLit(0))), x, "")
		return fx.loadHeap(st, heapPrefix(pv.Elem), pv.Ref, pv.Elem)
	case *ast.CompositeLit:
		return fx.evalCompositeLit(st, x)
	case *ast.TypeAssertExpr:
		return fx.evalTypeAssert(st, x, false)
	case *ast.FuncLit:
		return FuncV{Name: "closure", Lit: x}
	}
	fx.unsupportedf("expression %T %s", e, fx.src(e))
	return nil
}

func (fx *FuncCtx) evalUnary(st *State, x *ast.UnaryExpr) Val {
	switch x.Op {
	case token.NOT:
		return Not(fx.evalTerm(st, x.X))
	case token.ADD:
		return fx.eval(st, x.X)
	case token.SUB:
		t := fx.typeOf(x.X)
		v := fx.evalTerm(st, x.X)
		if k, ok := intInfo(t); ok {
			return fx.wrapInt(st, Neg(v), k, x)
		}
		if s, ok := isFloat(t); ok {
			return fx.fneg(v, s)
		}
		if s, ok := isComplex(t); ok {
			fn := "cneg_" + string(s)
			fx.declFun(fn, []Sort{s}, s)
			return app(s, fn, v)
		}
	case token.XOR:
		t := fx.typeOf(x.X)
		v := fx.evalTerm(st, x.X)
		if k, ok := intInfo(t); ok {
			if k.signed {
				return Sub(Neg(v), IntLit(1))
			}
			return Sub(Sub(Pow2(k.bits), IntLit(1)), v)
		}
	case token.AND:
		return fx.evalAddrOf(st, x)
	case token.ARROW:
		// channel receive: scheduling is not modelled (A7); the value is arbitrary
		ct, ok := fx.typeOf(x.X).Underlying().(*types.Chan)
		if !ok {
			fx.unsupportedf("receive from non-channel")
		}
		if _, isEmpty := ct.Elem().Underlying().(*types.Struct); isEmpty && ct.Elem().Underlying().(*types.Struct).NumFields() == 0 {
			return StructV{T: ct.Elem()}
		}
		v, facts := fx.freshVal("recv", ct.Elem())
		for _, f := range facts {
			st.assume(f)
		}
		return v
	}
	fx.unsupportedf("unary %s", fx.src(x))
	return nil
}

func (fx *FuncCtx) fneg(v Term, s Sort) Term {
	if fx.real {
		return app(s, "-", v)
	}
	if fx.ieee {
		return app(s, "fp.neg", v)
	}
	fn := "fneg_" + string(s)
	fx.declFun(fn, []Sort{s}, s)
	return app(s, fn, v)
}

// wrapInt applies the machine semantics of the integer kind to a
// mathematical result.
func (fx *FuncCtx) wrapInt(st *State, raw Term, k intKind, node ast.Node) Term {
	if !k.signed {
		if _, ok := isIntLit(raw); ok {
			// fold when in range
			if n, _ := isIntLit(raw); n >= 0 && (k.bits == 64 || n < int64(1)<<uint(k.bits)) {
				return raw
			}
		}
		return app(SInt, "mod", raw, Pow2(k.bits))
	}
	if fx.ovf && node != nil {
		if _, ok := isIntLit(raw); !ok {
			fx.oblige(st, "ovf", k.rangeOf(raw), node, "")
		}
	}
	return raw
}

func (fx *FuncCtx) evalBinary(st *State, x *ast.BinaryExpr) Val {
	switch x.Op {
	case token.LAND, token.LOR:
		a := fx.evalTerm(st, x.X)
		st2 := st.clone()
		if x.Op == token.LAND {
			st2.branch(a)
		} else {
			st2.branch(Not(a))
		}
		b := fx.evalTerm(st2, x.Y)
		fx.absorbPure(st, st2, x)
		if x.Op == token.LAND {
			return And(a, b)
		}
		return Or(a, b)
	}
	lt := fx.typeOf(x.X)
	rt := fx.typeOf(x.Y)
	l := fx.eval(st, x.X)
	r := fx.eval(st, x.Y)
	return fx.binop(st, x.Op, l, r, lt, rt, x)
}

// absorbPure: a sub-evaluation in a cloned state must not have changed
// the heap; facts learned there are kept under the branch guard.
func (fx *FuncCtx) absorbPure(st, st2 *State, node ast.Node) {
	for k, v := range st2.heap {
		if o, ok := st.heap[k]; ok && o.S != v.S {
			fx.unsupportedf("side effect in short-circuit operand %s", fx.src(node))
		}
		if _, ok := st.heap[k]; !ok {
			st.heap[k] = v
		}
	}
	// keep new non-branch facts, guarded
	n := len(st.hyps)
	if len(st2.hyps) > n+1 {
		g := st2.hyps[n].T
		for _, h := range st2.hyps[n+1:] {
			st.assume(Implies(g, h.T))
		}
	}
}

func (fx *FuncCtx) binop(st *State, op token.Token, l, r Val, lt, rt types.Type, node ast.Node) Val {
	// comparisons with nil
	if _, ok := r.(NilV); ok {
		return fx.nilCompare(op, l, node)
	}
	if _, ok := l.(NilV); ok {
		return fx.nilCompare(op, r, node)
	}
	switch lv := l.(type) {
	case StrV:
		rv, ok := r.(StrV)
		if !ok {
			break
		}
		if lv.Lit != nil && rv.Lit != nil {
			switch op {
			case token.EQL:
				if *lv.Lit == *rv.Lit {
					return tTrue
				}
				return tFalse
			case token.NEQ:
				if *lv.Lit != *rv.Lit {
					return tTrue
				}
				return tFalse
			case token.ADD:
				return fx.strLit(*lv.Lit + *rv.Lit)
			}
		}
		switch op {
		case token.EQL:
			return Eq(lv.ID, rv.ID)
		case token.NEQ:
			return Not(Eq(lv.ID, rv.ID))
		case token.ADD:
			fx.declFun("strcat", []Sort{SStr, SStr}, SStr)
			return StrV{ID: app(SStr, "strcat", lv.ID, rv.ID), Len: Add(lv.Len, rv.Len)}
		}
	case PtrV:
		if rv, ok := r.(PtrV); ok {
			switch op {
			case token.EQL:
				return Eq(lv.Ref, rv.Ref)
			case token.NEQ:
				return Not(Eq(lv.Ref, rv.Ref))
			}
		}
		if ri, ok := r.(IfaceV); ok && (op == token.EQL || op == token.NEQ) {
			return fx.ifacePtrEq(op, ri, lv, lt)
		}
	case IfaceV:
		if rv, ok := r.(IfaceV); ok {
			switch op {
			case token.EQL:
				return Eq(lv.T, rv.T)
			case token.NEQ:
				return Not(Eq(lv.T, rv.T))
			}
		}
		if rp, ok := r.(PtrV); ok && (op == token.EQL || op == token.NEQ) {
			return fx.ifacePtrEq(op, lv, rp, rt)
		}
	case StructV:
		if rv, ok := r.(StructV); ok && (op == token.EQL || op == token.NEQ) {
			var cs []Term
			st := lv.T.Underlying().(*types.Struct)
			for i := range lv.Fields {
				c := fx.binop(nil, token.EQL, lv.Fields[i], rv.Fields[i], st.Field(i).Type(), st.Field(i).Type(), node)
				cs = append(cs, c.(Term))
			}
			if op == token.EQL {
				return And(cs...)
			}
			return Not(And(cs...))
		}
	}
	a, ok1 := l.(Term)
	b, ok2 := r.(Term)
	if !ok1 || !ok2 {
		fx.unsupportedf("binary %s on %s, %s", op, valString(l), valString(r))
	}
	if a.Sort == SBool {
		switch op {
		case token.EQL:
			return Eq(a, b)
		case token.NEQ:
			return Not(Eq(a, b))
		}
	}
	// shifts: operand types differ
	if op == token.SHL || op == token.SHR {
		k, _ := intInfo(lt)
		return fx.shift(st, op, a, b, k, node)
	}
	if k, ok := intInfo(lt); ok && a.Sort == SInt {
		if _, ok := intInfo(rt); !ok && !isUntyped(rt) {
			fx.unsupportedf("mixed int op %s", fx.src(node))
		}
		if isUntyped(lt) {
			if k2, ok := intInfo(rt); ok && !isUntyped(rt) {
				k = k2
			}
		}
		switch op {
		case token.ADD:
			return fx.wrapInt(st, Add(a, b), k, node)
		case token.SUB:
			return fx.wrapInt(st, Sub(a, b), k, node)
		case token.MUL:
			return fx.wrapInt(st, Mul(a, b), k, node)
		case token.QUO:
			if st != nil {
				fx.oblige(st, "div", Not(Eq(b, IntLit(0))), node, "")
			}
			if q, _, ok := fx.divMod(st, a, b); ok {
				return q
			}
			return fx.intDiv(a, b, k)
		case token.REM:
			if st != nil {
				fx.oblige(st, "div", Not(Eq(b, IntLit(0))), node, "")
			}
			if _, r, ok := fx.divMod(st, a, b); ok {
				return r
			}
			return fx.intRem(a, b, k)
		case token.EQL:
			return Eq(a, b)
		case token.NEQ:
			return Not(Eq(a, b))
		case token.LSS:
			return Lt(a, b)
		case token.LEQ:
			return Le(a, b)
		case token.GTR:
			return Gt(a, b)
		case token.GEQ:
			return Ge(a, b)
		case token.AND:
			return fx.bitAnd(st, a, b, k)
		case token.OR, token.XOR, token.AND_NOT:
			return fx.bitOp(st, op, a, b, k)
		}
	}
	if s, ok := isFloat(lt); ok || a.Sort == SF64 || a.Sort == SF32 {
		if !ok {
			s = a.Sort
		}
		return fx.floatOp(op, a, b, s, node)
	}
	if s, ok := isComplex(lt); ok {
		return fx.complexOp(op, a, b, s, node)
	}
	if a.Sort == SIfc || a.Sort == SInt {
		switch op {
		case token.EQL:
			return Eq(a, b)
		case token.NEQ:
			return Not(Eq(a, b))
		}
	}
	fx.unsupportedf("binary op %s on %s (%s)", op, lt, fx.src(node))
	return nil
}

func isUntyped(t types.Type) bool {
	b, ok := t.(*types.Basic)
	return ok && b.Info()&types.IsUntyped != 0
}

func (fx *FuncCtx) nilCompare(op token.Token, v Val, node ast.Node) Val {
	var isNil Term
	switch x := v.(type) {
	case SliceV:
		isNil = Eq(x.Rid, IntLit(0))
	case PtrV:
		isNil = Eq(x.Ref, IntLit(0))
	case MapV:
		isNil = Eq(x.Ref, IntLit(0))
	case IfaceV:
		fx.declare("(declare-const nilIface Iface)")
		isNil = Eq(x.T, Term{"nilIface", SIfc})
	case FuncV:
		if x.Name == "nil" {
			isNil = tTrue
		} else if x.Obj != nil || x.Lit != nil {
			isNil = tFalse
		} else {
			c := fx.freshConst("fnnil_"+x.Name, SBool)
			isNil = c
		}
	case NilV:
		isNil = tTrue
	case Term:
		if x.Sort == SInt {
			isNil = Eq(x, IntLit(0))
		}
	}
	if isNil.S == "" {
		fx.unsupportedf("nil comparison of %s at %s", valString(v), fx.src(node))
	}
	if op == token.EQL {
		return isNil
	}
	return Not(isNil)
}

func (fx *FuncCtx) intDiv(a, b Term, k intKind) Term {
	if n, ok := isIntLit(b); ok && n > 0 && !k.signed {
		return app(SInt, "div", a, b)
	}
	return app(SInt, "tdiv", a, b)
}

func (fx *FuncCtx) intRem(a, b Term, k intKind) Term {
	if n, ok := isIntLit(b); ok && n > 0 && !k.signed {
		return app(SInt, "mod", a, b)
	}
	return app(SInt, "tmod", a, b)
}

func log2Exact(n int64) int {
	if n <= 0 || n&(n-1) != 0 {
		return -1
	}
	k := 0
	for n > 1 {
		n >>= 1
		k++
	}
	return k
}

func (fx *FuncCtx) shift(st *State, op token.Token, a, b Term, k intKind, node ast.Node) Term {
	if n, ok := isIntLit(b); ok && n >= 0 && n < 128 {
		if op == token.SHL {
			return fx.wrapInt(st, Mul(a, Pow2(int(n))), k, node)
		}
		return app(SInt, "div", a, Pow2(int(n)))
	}
	fx.declarePow2()
	p := app(SInt, "pow2", b)
	if st != nil {
		// shift counts are non-negative in Go (negative panics)
		fx.oblige(st, "shift", Ge(b, IntLit(0)), node, "")
	}
	if op == token.SHL {
		if !k.signed {
			// shifting by >= width gives 0; pow2 saturates at 2^64 so mod handles it
			return app(SInt, "mod", Mul(a, p), Pow2(k.bits))
		}
		return fx.wrapInt(st, Mul(a, p), k, node)
	}
	return app(SInt, "div", a, p)
}

func (fx *FuncCtx) declarePow2() {
	if fx.declSet["pow2def"] {
		return
	}
	fx.declSet["pow2def"] = true
	var b strings.Builder
	b.WriteString("(define-fun pow2 ((k Int)) Int ")
	for i := 0; i < 64; i++ {
		fmt.Fprintf(&b, "(ite (<= k %d) %s ", i, pow2[i].String())
	}
	b.WriteString(pow2[64].String())
	b.WriteString(strings.Repeat(")", 65))
	fx.decls = append(fx.decls, b.String())
}

func (fx *FuncCtx) bitAnd(st *State, a, b Term, k intKind) Term {
	if n, ok := isIntLit(b); ok && n >= 0 {
		if j := log2Exact(n + 1); j >= 0 {
			return app(SInt, "mod", a, Pow2(j))
		}
	}
	if n, ok := isIntLit(a); ok && n >= 0 {
		if j := log2Exact(n + 1); j >= 0 {
			return app(SInt, "mod", b, Pow2(j))
		}
	}
	return fx.bitOp(st, token.AND, a, b, k)
}

func (fx *FuncCtx) bitOp(st *State, op token.Token, a, b Term, k intKind) Term {
	name := map[token.Token]string{token.AND: "bitand", token.OR: "bitor", token.XOR: "bitxor", token.AND_NOT: "bitandnot"}[op]
	fx.declFun(name, []Sort{SInt, SInt}, SInt)
	r := app(SInt, name, a, b)
	if st != nil {
		// range facts for non-negative operands
		nn := And(Ge(a, IntLit(0)), Ge(b, IntLit(0)))
		switch op {
		case token.AND:
			st.assume(Implies(nn, And(Ge(r, IntLit(0)), Le(r, a), Le(r, b))))
		case token.OR, token.XOR:
			st.assume(Implies(nn, And(Ge(r, IntLit(0)), Le(r, Add(a, b)))))
		case token.AND_NOT:
			st.assume(Implies(nn, And(Ge(r, IntLit(0)), Le(r, a))))
		}
		if !k.signed {
			st.assume(k.rangeOf(r))
		}
	}
	return r
}

func (fx *FuncCtx) floatOp(op token.Token, a, b Term, s Sort, node ast.Node) Val {
	sfx := "64"
	if s == SF32 {
		sfx = "32"
	}
	arith := func(n string) Term {
		if fx.real {
			return app(s, map[string]string{"fadd": "+", "fsub": "-", "fmul": "*", "fdiv": "/"}[n], a, b)
		}
		// arithmetic on two literals is folded with Go's own (IEEE 754) arithmetic: constants
		// such as math.Sqrt(safmax)/3 then have a definite, non-zero, non-NaN value
		if x, ok := floatLitValue(a); ok {
			if y, ok := floatLitValue(b); ok {
				var r float64
				if s == SF32 {
					x32, y32 := float32(x), float32(y)
					switch n {
					case "fadd":
						r = float64(x32 + y32)
					case "fsub":
						r = float64(x32 - y32)
					case "fmul":
						r = float64(x32 * y32)
					case "fdiv":
						r = float64(x32 / y32)
					}
				} else {
					switch n {
					case "fadd":
						r = x + y
					case "fsub":
						r = x - y
					case "fmul":
						r = x * y
					case "fdiv":
						r = x / y
					}
				}
				return fx.floatConst(r, s)
			}
		}
		fn := n + sfx
		fx.declFun(fn, []Sort{s, s}, s)
		if fx.ieee && fx.con != nil && fx.con.Options["nan-axioms"] == "true" {
			// the arithmetic stays uninterpreted (bit-precise reasoning about rounding is not
			// attempted), but when the result is NaN is part of IEEE 754 and is stated exactly
			var cond string
			switch n {
			case "fdiv":
				cond = "(and (fp.isZero a) (fp.isZero b)) (and (fp.isInfinite a) (fp.isInfinite b))"
			case "fmul":
				cond = "(and (fp.isZero a) (fp.isInfinite b)) (and (fp.isInfinite a) (fp.isZero b))"
			case "fadd":
				cond = "(and (fp.isInfinite a) (fp.isInfinite b) (not (= (fp.isNegative a) (fp.isNegative b))))"
			case "fsub":
				cond = "(and (fp.isInfinite a) (fp.isInfinite b) (= (fp.isNegative a) (fp.isNegative b)))"
			}
			fx.declare(fmt.Sprintf("(assert (forall ((a %s) (b %s)) (! (= (fp.isNaN (%s a b)) (or (fp.isNaN a) (fp.isNaN b) %s)) :pattern ((%s a b)))))", s, s, fn, cond, fn))
		}
		return app(s, fn, a, b)
	}
	cmp := func(ie, op string, x, y Term) Term {
		if fx.real {
			return app(SBool, map[string]string{"fp.eq": "=", "fp.lt": "<", "fp.leq": "<="}[ie], x, y)
		}
		if fx.ieee {
			return app(SBool, ie, x, y)
		}
		fn := op + sfx
		fx.declFun(fn, []Sort{s, s}, SBool)
		return app(SBool, fn, x, y)
	}
	switch op {
	case token.ADD:
		return arith("fadd")
	case token.SUB:
		return arith("fsub")
	case token.MUL:
		return arith("fmul")
	case token.QUO:
		return arith("fdiv")
	case token.EQL:
		return cmp("fp.eq", "feq", a, b)
	case token.NEQ:
		return Not(cmp("fp.eq", "feq", a, b))
	case token.LSS:
		return cmp("fp.lt", "flt", a, b)
	case token.LEQ:
		return cmp("fp.leq", "fle", a, b)
	case token.GTR:
		return cmp("fp.lt", "flt", b, a)
	case token.GEQ:
		return cmp("fp.leq", "fle", b, a)
	}
	fx.unsupportedf("float op %s", fx.src(node))
	return nil
}

func (fx *FuncCtx) complexOp(op token.Token, a, b Term, s Sort, node ast.Node) Val {
	name := map[token.Token]string{token.ADD: "cadd", token.SUB: "csub", token.MUL: "cmul", token.QUO: "cdiv"}[op]
	if name != "" {
		fn := name + "_" + string(s)
		fx.declFun(fn, []Sort{s, s}, s)
		return app(s, fn, a, b)
	}
	if op == token.EQL || op == token.NEQ {
		fn := "ceq_" + string(s)
		fx.declFun(fn, []Sort{s, s}, SBool)
		t := app(SBool, fn, a, b)
		if op == token.NEQ {
			return Not(t)
		}
		return t
	}
	fx.unsupportedf("complex op %s", fx.src(node))
	return nil
}

// ---------------------------------------------------------------------------
// memory

func (fx *FuncCtx) heapGet(st *State, name string, sort Sort) Term {
	if t, ok := st.heap[name]; ok {
		return t
	}
	t := fx.declConst(name, sort)
	st.heap[name] = t
	// first use of this array on this path: it is the entry constant. Loops that may modify the
	// array must know about it before their head state is built (see materialiseLoopHeap).
	fx.heapDeclLog = append(fx.heapDeclLog, heapDecl{name, sort})
	if strings.HasSuffix(name, ".rid") && sort == ArraySort(SInt, SInt) {
		// slices held by heap objects at function entry were made by the caller: their regions have
		// non-negative identifiers (regions allocated during this call have negative ones). This is a
		// fact about the objects that exist at entry (references below the allocation frontier alloc0)
		// in the ENTRY heap only: after a store, a heap object may hold a local allocation, and the
		// fields of an object allocated by a callee are read from the same array at a reference >= alloc0
		// (assuming rid >= 0 at every load made such paths contradictory and their postconditions
		// vacuous: reported by a contract-writing agent).
		fx.globalFacts = append(fx.globalFacts, Term{fmt.Sprintf("(forall ((q_hrid Int)) (=> (< q_hrid alloc0) (>= (select %s q_hrid) 0)))", name), SBool})
	}
	return t
}

func (fx *FuncCtx) elemSort(elem types.Type) Sort {
	s := scalarSort(elem)
	if s == "" {
		fx.unsupportedf("slice of non-scalar element %s", elem)
	}
	return s
}

func (fx *FuncCtx) memSort(elem types.Type) Sort {
	return ArraySort(SInt, ArraySort(SInt, fx.elemSort(elem)))
}

func (fx *FuncCtx) wrapElem(t Term, elem types.Type) Val {
	switch u := elem.Underlying().(type) {
	case *types.Pointer:
		return PtrV{Ref: t, Elem: u.Elem()}
	case *types.Map:
		return MapV{Ref: t, T: u}
	case *types.Interface:
		return IfaceV{T: t, GT: elem}
	}
	return t
}

func unwrapScalar(v Val) (Term, bool) {
	switch x := v.(type) {
	case Term:
		return x, true
	case PtrV:
		return x.Ref, true
	case MapV:
		return x.Ref, true
	case IfaceV:
		return x.T, true
	}
	return Term{}, false
}

func (fx *FuncCtx) memRead(st *State, sv SliceV, idx Term) Val {
	if sv.IsString {
		fx.declFun("strbyte", []Sort{SInt, SInt}, SInt)
		b := app(SInt, "strbyte", sv.Rid, Add(sv.Off, idx))
		st.assume(And(Ge(b, IntLit(0)), Lt(b, IntLit(256))))
		return b
	}
	if _, ok := sv.Elem.Underlying().(*types.Struct); ok {
		return fx.loadHeap(st, "S_"+heapPrefix(sv.Elem), fx.cellRef(sv, idx), sv.Elem)
	}
	name := memName(sv.Elem)
	es := fx.elemSort(sv.Elem)
	m := fx.heapGet(st, name, fx.memSort(sv.Elem))
	t := Select(Select(m, sv.Rid, ArraySort(SInt, es)), Add(sv.Off, idx), es)
	if k, ok := intInfo(sv.Elem); ok {
		if fx.inQuant > 0 {
			return t
		}
		// typing fact for the loaded integer
		d := fx.define("ld", t)
		st.assume(k.rangeOf(d))
		return d
	}
	return fx.wrapElem(t, sv.Elem)
}

// cellRef maps a (region, index) pair to a heap reference for slices of structs.
func (fx *FuncCtx) cellRef(sv SliceV, idx Term) Term {
	fx.declFun("cellref", []Sort{SInt, SInt}, SInt)
	return app(SInt, "cellref", sv.Rid, Add(sv.Off, idx))
}

func (fx *FuncCtx) memWrite(st *State, sv SliceV, idx Term, v Val) {
	if sv.IsString {
		fx.unsupportedf("write to string")
	}
	if _, ok := sv.Elem.Underlying().(*types.Struct); ok {
		fx.storeHeap(st, "S_"+heapPrefix(sv.Elem), fx.cellRef(sv, idx), sv.Elem, v)
		return
	}
	name := memName(sv.Elem)
	es := fx.elemSort(sv.Elem)
	m := fx.heapGet(st, name, fx.memSort(sv.Elem))
	t, ok := unwrapScalar(v)
	if !ok {
		fx.unsupportedf("store of non-scalar %s", valString(v))
	}
	row := Select(m, sv.Rid, ArraySort(SInt, es))
	nm := Store(m, sv.Rid, Store(row, Add(sv.Off, idx), t))
	st.heap[name] = fx.define(name, nm)
}

func (fx *FuncCtx) evalIndex(st *State, x *ast.IndexExpr) Val {
	// generic function instantiation f[T] is not supported
	base := fx.eval(st, x.X)
	switch b := base.(type) {
	case SliceV:
		idx := fx.evalTerm(st, x.Index)
		fx.oblige(st, "idx", And(Ge(idx, IntLit(0)), Lt(idx, b.Len)), x, "")
		fx.noteRead(st, b, idx, x)
		return fx.memRead(st, b, idx)
	case ArrayV:
		idx := fx.evalTerm(st, x.Index)
		fx.oblige(st, "idx", And(Ge(idx, IntLit(0)), Lt(idx, IntLit(b.T.Len()))), x, "")
		es := scalarSort(b.T.Elem())
		t := Select(b.Arr, idx, es)
		if k, ok := intInfo(b.T.Elem()); ok {
			st.assume(k.rangeOf(t))
		}
		return fx.wrapElem(t, b.T.Elem())
	case MapV:
		v, _ := fx.mapLookup(st, b, fx.eval(st, x.Index))
		return v
	case StrV:
		idx := fx.evalTerm(st, x.Index)
		fx.oblige(st, "idx", And(Ge(idx, IntLit(0)), Lt(idx, b.Len)), x, "")
		if b.Lit != nil {
			if n, ok := isIntLit(idx); ok && n >= 0 && int(n) < len(*b.Lit) {
				return IntLit(int64((*b.Lit)[n]))
			}
		}
		fx.declFun("strat", []Sort{SStr, SInt}, SInt)
		c := app(SInt, "strat", b.ID, idx)
		st.assume(And(Ge(c, IntLit(0)), Lt(c, IntLit(256))))
		return c
	case PtrV:
		// pointer to array
		if at, ok := b.Elem.Underlying().(*types.Array); ok {
			fx.oblige(st, "nil", Not(Eq(b.Ref, IntLit(0))), x, "")
			arr := fx.loadHeap(st, heapPrefix(b.Elem), b.Ref, b.Elem).(ArrayV)
			idx := fx.evalTerm(st, x.Index)
			fx.oblige(st, "idx", And(Ge(idx, IntLit(0)), Lt(idx, IntLit(at.Len()))), x, "")
			es := scalarSort(at.Elem())
			t := Select(arr.Arr, idx, es)
			if k, ok := intInfo(at.Elem()); ok {
				st.assume(k.rangeOf(t))
			}
			return fx.wrapElem(t, at.Elem())
		}
	}
	fx.unsupportedf("index of %s", valString(base))
	return nil
}

func (fx *FuncCtx) evalSliceExpr(st *State, x *ast.SliceExpr) Val {
	base := fx.eval(st, x.X)
	switch b := base.(type) {
	case SliceV:
		lo := IntLit(0)
		if x.Low != nil {
			lo = fx.evalTerm(st, x.Low)
		}
		hi := b.Len
		if x.High != nil {
			hi = fx.evalTerm(st, x.High)
		}
		capEnd := b.Cap
		if x.Max != nil {
			mx := fx.evalTerm(st, x.Max)
			fx.oblige(st, "slice", And(Ge(lo, IntLit(0)), Le(lo, hi), Le(hi, mx), Le(mx, b.Cap)), x, "")
			capEnd = mx
		} else if b.IsString {
			fx.oblige(st, "slice", And(Ge(lo, IntLit(0)), Le(lo, hi), Le(hi, b.Len)), x, "")
		} else {
			fx.oblige(st, "slice", And(Ge(lo, IntLit(0)), Le(lo, hi), Le(hi, b.Cap)), x, "")
		}
		return SliceV{Rid: b.Rid, Off: fx.define("off", Add(b.Off, lo)), Len: fx.define("len", Sub(hi, lo)), Cap: fx.define("cap", Sub(capEnd, lo)), Elem: b.Elem, IsString: b.IsString}
	case StrV:
		lo := IntLit(0)
		if x.Low != nil {
			lo = fx.evalTerm(st, x.Low)
		}
		hi := b.Len
		if x.High != nil {
			hi = fx.evalTerm(st, x.High)
		}
		fx.oblige(st, "slice", And(Ge(lo, IntLit(0)), Le(lo, hi), Le(hi, b.Len)), x, "")
		if b.Lit != nil {
			l, ok1 := isIntLit(lo)
			h, ok2 := isIntLit(hi)
			if ok1 && ok2 && 0 <= l && l <= h && int(h) <= len(*b.Lit) {
				return fx.strLit((*b.Lit)[l:h])
			}
		}
		fx.declFun("substr", []Sort{SStr, SInt, SInt}, SStr)
		return StrV{ID: app(SStr, "substr", b.ID, lo, hi), Len: Sub(hi, lo)}
	case ArrayV, PtrV:
		// slicing an array: allocate a region holding a copy (arrays of
		// scalars only; aliasing with the array variable is not tracked)
		var arr ArrayV
		if p, ok := b.(PtrV); ok {
			a, ok := fx.loadHeap(st, heapPrefix(p.Elem), p.Ref, p.Elem).(ArrayV)
			if !ok {
				break
			}
			arr = a
		} else {
			arr = b.(ArrayV)
		}
		// Slicing an array: a fresh region initialised with the array's contents.
		// Writes through the slice would have to be reflected in the array; that is
		// not modelled, so such regions are read-only (stores are outside the subset).
		es := fx.elemSort(arr.T.Elem())
		n := arr.T.Len()
		lo := IntLit(0)
		if x.Low != nil {
			lo = fx.evalTerm(st, x.Low)
		}
		hi := IntLit(n)
		if x.High != nil {
			hi = fx.evalTerm(st, x.High)
		}
		fx.oblige(st, "slice", And(Ge(lo, IntLit(0)), Le(lo, hi), Le(hi, IntLit(n))), x, "")
		rid := fx.freshConst("alloc_arrview", SInt)
		st.assume(Lt(rid, IntLit(0)))
		for _, prev := range st.allocs {
			st.assume(Not(Eq(rid, prev)))
		}
		st.allocs = append(st.allocs[:len(st.allocs):len(st.allocs)], rid)
		name := memName(arr.T.Elem())
		m := fx.heapGet(st, name, fx.memSort(arr.T.Elem()))
		st.heap[name] = fx.define(name, Store(m, rid, arr.Arr))
		_ = es
		// a callee that writes through the view (a call argument a[:]) changes the array itself:
		// remember where the array lives so that the call can havoc it (see checkCallFrame)
		if fx.arrViewSrc == nil {
			fx.arrViewSrc = map[string]arrViewInfo{}
		}
		fx.arrViewSrc[rid.S] = arrViewInfo{src: x.X, t: arr.T}
		return SliceV{Rid: rid, Off: lo, Len: Sub(hi, lo), Cap: Sub(IntLit(n), lo), Elem: arr.T.Elem()}
	}
	fx.unsupportedf("slice expression on %s", valString(base))
	return nil
}

func (fx *FuncCtx) fieldIndex(t types.Type, name string) (int, *types.Struct) {
	st, ok := t.Underlying().(*types.Struct)
	if !ok {
		fx.unsupportedf("field %s of non-struct %s", name, t)
	}
	for i := 0; i < st.NumFields(); i++ {
		if st.Field(i).Name() == name {
			return i, st
		}
	}
	fx.unsupportedf("no field %s in %s", name, t)
	return 0, nil
}

func (fx *FuncCtx) evalSelector(st *State, x *ast.SelectorExpr) Val {
	// qualified identifier pkg.Name
	if id, ok := x.X.(*ast.Ident); ok {
		if _, ok := fx.info.ObjectOf(id).(*types.PkgName); ok {
			obj := fx.info.ObjectOf(x.Sel)
			switch o := obj.(type) {
			case *types.Var:
				return fx.globalVar(st, o)
			case *types.Func:
				return FuncV{Name: o.FullName(), Obj: o}
			}
			fx.unsupportedf("qualified identifier %s", fx.src(x))
		}
	}
	sel := fx.info.Selections[x]
	if sel == nil {
		fx.unsupportedf("selector %s", fx.src(x))
	}
	switch sel.Kind() {
	case types.FieldVal:
		v := fx.eval(st, x.X)
		t := fx.typeOf(x.X)
		return fx.selectPath(st, v, t, sel.Index(), x)
	case types.MethodVal:
		return FuncV{Name: sel.Obj().Name(), Obj: sel.Obj(), Lit: x}
	}
	fx.unsupportedf("selector kind %s", fx.src(x))
	return nil
}

// selectPath follows a (possibly embedded) field path.
func (fx *FuncCtx) selectPath(st *State, v Val, t types.Type, path []int, node ast.Node) Val {
	for _, i := range path {
		switch x := v.(type) {
		case StructV:
			s := t.Underlying().(*types.Struct)
			v = x.Fields[i]
			t = s.Field(i).Type()
		case PtrV:
			s, ok := x.Elem.Underlying().(*types.Struct)
			if !ok {
				fx.unsupportedf("field of pointer to %s", x.Elem)
			}
			fx.oblige(st, "nil", Not(Eq(x.Ref, IntLit(0))), node, "")
			f := s.Field(i)
			v = fx.loadHeap(st, heapPrefix(x.Elem)+"."+f.Name(), x.Ref, f.Type())
			t = f.Type()
		default:
			fx.unsupportedf("field selection on %s", valString(v))
		}
	}
	return v
}

func heapPrefix(t types.Type) string {
	return "H_" + smtName(types.TypeString(t, func(p *types.Package) string { return p.Name() }))
}

// loadHeap reads a value of type t stored at reference ref under prefix.
func (fx *FuncCtx) loadHeap(st *State, prefix string, ref Term, t types.Type) Val {
	switch u := t.Underlying().(type) {
	case *types.Struct:
		sv := StructV{T: t}
		for i := 0; i < u.NumFields(); i++ {
			f := u.Field(i)
			sv.Fields = append(sv.Fields, fx.loadHeap(st, prefix+"."+f.Name(), ref, f.Type()))
		}
		return sv
	case *types.Slice:
		g := func(s string) Term {
			return Select(fx.heapGet(st, prefix+"."+s, ArraySort(SInt, SInt)), ref, SInt)
		}
		sv := SliceV{Rid: g("rid"), Off: g("off"), Len: g("len"), Cap: g("cap"), Elem: u.Elem()}
		if fx.inQuant > 0 {
			return sv
		}
		st.assume(And(Ge(sv.Off, IntLit(0)), Ge(sv.Len, IntLit(0)), Le(sv.Len, sv.Cap), Lt(sv.Cap, capBound(u.Elem())), Implies(Eq(sv.Rid, IntLit(0)), Eq(sv.Cap, IntLit(0)))))
		return sv
	case *types.Array:
		es := fx.elemSort(u.Elem())
		return ArrayV{T: u, Arr: Select(fx.heapGet(st, prefix, ArraySort(SInt, ArraySort(SInt, es))), ref, ArraySort(SInt, es))}
	case *types.Basic:
		if u.Info()&types.IsString != 0 {
			id := Select(fx.heapGet(st, prefix+".str", ArraySort(SInt, SStr)), ref, SStr)
			fx.declFun("strlen", []Sort{SStr}, SInt)
			ln := app(SInt, "strlen", id)
			st.assume(Ge(ln, IntLit(0)))
			return StrV{ID: id, Len: ln}
		}
	case *types.Signature:
		return FuncV{Name: prefix}
	}
	s := fx.sortOf(t)
	v := Select(fx.heapGet(st, prefix, ArraySort(SInt, s)), ref, s)
	if k, ok := intInfo(t); ok && fx.inQuant == 0 {
		st.assume(k.rangeOf(v))
	}
	if s == SInt {
		if _, ok := intInfo(t); !ok {
			fx.refFact(st, v) // references
			fx.heapRefAxiom(prefix, "")
		}
	}
	return fx.wrapElem(v, t)
}

func (fx *FuncCtx) storeHeap(st *State, prefix string, ref Term, t types.Type, v Val) {
	switch u := t.Underlying().(type) {
	case *types.Struct:
		sv, ok := v.(StructV)
		if !ok {
			fx.unsupportedf("store struct from %s", valString(v))
		}
		for i := 0; i < u.NumFields(); i++ {
			f := u.Field(i)
			fx.storeHeap(st, prefix+"."+f.Name(), ref, f.Type(), sv.Fields[i])
		}
		return
	case *types.Slice:
		sv, ok := v.(SliceV)
		if !ok {
			fx.unsupportedf("store slice from %s", valString(v))
		}
		p := func(s string, val Term) {
			h := fx.heapGet(st, prefix+"."+s, ArraySort(SInt, SInt))
			st.heap[prefix+"."+s] = fx.define(prefix+"."+s, Store(h, ref, val))
		}
		p("rid", sv.Rid)
		p("off", sv.Off)
		p("len", sv.Len)
		p("cap", sv.Cap)
		return
	case *types.Array:
		av, ok := v.(ArrayV)
		if !ok {
			fx.unsupportedf("store array from %s", valString(v))
		}
		es := fx.elemSort(u.Elem())
		h := fx.heapGet(st, prefix, ArraySort(SInt, ArraySort(SInt, es)))
		st.heap[prefix] = fx.define(prefix, Store(h, ref, av.Arr))
		return
	case *types.Basic:
		if u.Info()&types.IsString != 0 {
			sv := v.(StrV)
			h := fx.heapGet(st, prefix+".str", ArraySort(SInt, SStr))
			st.heap[prefix+".str"] = fx.define(prefix, Store(h, ref, sv.ID))
			return
		}
	case *types.Signature:
		return
	}
	s := fx.sortOf(t)
	tv, ok := unwrapScalar(v)
	if !ok {
		if _, isNil := v.(NilV); isNil {
			tv, _ = unwrapScalar(fx.zeroVal(t))
		} else {
			fx.unsupportedf("store scalar from %s", valString(v))
		}
	}
	h := fx.heapGet(st, prefix, ArraySort(SInt, s))
	st.heap[prefix] = fx.define(prefix, Store(h, ref, tv))
}

// divMod names quotient and remainder of a truncated division by a symbolic
// divisor and states their defining (linearised) properties; solvers reason
// far better with a = q*b + r than with nested div/mod terms.
func (fx *FuncCtx) divMod(st *State, a, b Term) (q, r Term, ok bool) {
	if st == nil || fx.inQuant > 0 {
		return Term{}, Term{}, false
	}
	if _, lit := isIntLit(b); lit {
		return Term{}, Term{}, false
	}
	q = fx.freshConst("quo", SInt)
	r = fx.freshConst("rem", SInt)
	zero := IntLit(0)
	st.assume(Implies(Not(Eq(b, zero)), And(
		Eq(a, Add(Mul(q, b), r)),
		Implies(And(Gt(b, zero), Ge(a, zero)), And(Ge(r, zero), Lt(r, b), Ge(q, zero))),
		Implies(And(Gt(b, zero), Lt(a, zero)), And(Le(r, zero), Gt(r, Neg(b)), Le(q, zero))),
		Implies(And(Lt(b, zero), Ge(a, zero)), And(Ge(r, zero), Lt(r, Neg(b)), Le(q, zero))),
		Implies(And(Lt(b, zero), Lt(a, zero)), And(Le(r, zero), Gt(r, b), Ge(q, zero))),
	)))
	st.assume(Eq(q, app(SInt, "tdiv", a, b)))
	st.assume(Eq(r, app(SInt, "tmod", a, b)))
	return q, r, true
}

// ifacePtrEq: interface value compared with a pointer: equal iff the dynamic
// type is the pointer's type and the boxed pointer is the same reference.
func (fx *FuncCtx) ifacePtrEq(op token.Token, iv IfaceV, p PtrV, pt types.Type) Term {
	fx.declFun("typeOf", []Sort{SIfc}, SInt)
	tname := smtName(types.TypeString(pt, func(p *types.Package) string { return p.Name() }))
	fx.declFun("unbox_"+tname, []Sort{SIfc}, SInt)
	fx.declare("(declare-const nilIface Iface)")
	eq := And(Not(Eq(iv.T, Term{"nilIface", SIfc})), Eq(app(SInt, "typeOf", iv.T), IntLit(fx.eng.typeID(pt))), Eq(app(SInt, "unbox_"+tname, iv.T), p.Ref))
	if op == token.NEQ {
		return Not(eq)
	}
	return eq
}

// floatLitValue recognises the float literals produced by f64Lit / f32Lit.
func floatLitValue(t Term) (float64, bool) {
	switch {
	case strings.HasPrefix(t.S, "fc64_") && len(t.S) == 21:
		var bits uint64
		if _, err := fmt.Sscanf(t.S[5:], "%016x", &bits); err == nil {
			return math.Float64frombits(bits), true
		}
	case strings.HasPrefix(t.S, "fc32_") && len(t.S) == 13:
		var bits uint32
		if _, err := fmt.Sscanf(t.S[5:], "%08x", &bits); err == nil {
			return float64(math.Float32frombits(bits)), true
		}
	case strings.HasPrefix(t.S, "(fp #b") && t.Sort == SF64:
		var sgn, ex, man uint64
		if _, err := fmt.Sscanf(t.S, "(fp #b%b #b%b #x%x)", &sgn, &ex, &man); err == nil {
			return math.Float64frombits(sgn<<63 | ex<<52 | man), true
		}
	case strings.HasPrefix(t.S, "(fp #b") && t.Sort == SF32:
		var sgn, ex, man uint32
		if _, err := fmt.Sscanf(t.S, "(fp #b%b #b%b #b%b)", &sgn, &ex, &man); err == nil {
			return float64(math.Float32frombits(sgn<<31 | ex<<23 | man)), true
		}
	}
	return 0, false
}
