package main

// Symbolic values and program states.

import (
	"fmt"
	"go/types"
	"sort"
	"strings"
	"sync"
)

type Val interface{}

// SliceV is a slice header: region id, absolute offset of element 0 inside the
// region, length and capacity. nil slice: Rid == 0.
type SliceV struct {
	Rid, Off, Len, Cap Term
	Elem               types.Type
	IsString           bool
}

type StructV struct {
	T      types.Type // named or struct type
	Fields []Val
}

type ArrayV struct {
	T   *types.Array
	Arr Term // (Array Int elemSort)
}

type PtrV struct {
	Ref    Term // Int; 0 = nil
	Elem   types.Type
	Prefix string // non-empty: sub-object of another heap object
}

func (p PtrV) prefix() string {
	if p.Prefix != "" {
		return p.Prefix
	}
	return heapPrefix(p.Elem)
}

type MapV struct {
	Ref Term // Int; 0 = nil
	T   *types.Map
}

type IfaceV struct {
	T  Term // Iface sort
	GT types.Type
}

type StrV struct {
	ID  Term // Str sort (identity of contents)
	Len Term
	Lit *string // known literal contents (constant folding)
}

type TupleV []Val

type FuncV struct {
	Name string
	Obj  types.Object
	Lit  interface{}
}

type NilV struct{}

// Hyp is one fact of a state; Branch marks path-condition entries.
type Hyp struct {
	T      Term
	Branch bool
}

type State struct {
	vars     map[types.Object]Val
	heap     map[string]Term // memory / heap arrays by name
	hyps     []Hyp
	written  Term
	allocs   []Term
	refs     []Term
	allocTop Term // frontier of object references: every live reference is below it
}

func (s *State) clone() *State {
	n := &State{vars: make(map[types.Object]Val, len(s.vars)), heap: make(map[string]Term, len(s.heap)), written: s.written, allocTop: s.allocTop}
	for k, v := range s.vars {
		n.vars[k] = v
	}
	for k, v := range s.heap {
		n.heap[k] = v
	}
	n.hyps = s.hyps[:len(s.hyps):len(s.hyps)]
	n.allocs = s.allocs[:len(s.allocs):len(s.allocs)]
	n.refs = s.refs[:len(s.refs):len(s.refs)]
	return n
}

func (s *State) assume(t Term) {
	if t.S == "true" {
		return
	}
	s.hyps = append(s.hyps, Hyp{T: t})
}

func (s *State) branch(t Term) {
	if t.S == "true" {
		return
	}
	s.hyps = append(s.hyps, Hyp{T: t, Branch: true})
}

func (s *State) hypTerms() []Term {
	out := make([]Term, len(s.hyps))
	for i, h := range s.hyps {
		out[i] = h.T
	}
	return out
}

// ---------------------------------------------------------------------------
// types

type intKind struct {
	bits   int
	signed bool
}

// resolveTP maps a type parameter to a representative of its type set (the
// first term of the constraint): generic code is verified for that instance.
func resolveTP(t types.Type) types.Type {
	tp, ok := t.(*types.TypeParam)
	if !ok {
		return t
	}
	if iface, ok := tp.Constraint().Underlying().(*types.Interface); ok {
		for i := 0; i < iface.NumEmbeddeds(); i++ {
			switch e := iface.EmbeddedType(i).(type) {
			case *types.Union:
				if e.Len() > 0 {
					// prefer a 64-bit member when present
					for j := 0; j < e.Len(); j++ {
						if b, ok := e.Term(j).Type().Underlying().(*types.Basic); ok && (b.Kind() == types.Int64 || b.Kind() == types.Float64) {
							return e.Term(j).Type()
						}
					}
					return e.Term(0).Type()
				}
			case *types.Named:
				if u, ok := e.Underlying().(*types.Interface); ok {
					for k := 0; k < u.NumEmbeddeds(); k++ {
						if un, ok := u.EmbeddedType(k).(*types.Union); ok && un.Len() > 0 {
							for j := 0; j < un.Len(); j++ {
								if b, ok := un.Term(j).Type().Underlying().(*types.Basic); ok && (b.Kind() == types.Int64 || b.Kind() == types.Float64) {
									return un.Term(j).Type()
								}
							}
							return un.Term(0).Type()
						}
					}
				}
			}
		}
	}
	return t
}

func intInfo(t types.Type) (intKind, bool) {
	t = resolveTP(t)
	b, ok := t.Underlying().(*types.Basic)
	if !ok {
		return intKind{}, false
	}
	switch b.Kind() {
	case types.Int, types.Int64, types.UntypedInt, types.UntypedRune:
		return intKind{64, true}, true
	case types.Int32:
		return intKind{32, true}, true
	case types.Int16:
		return intKind{16, true}, true
	case types.Int8:
		return intKind{8, true}, true
	case types.Uint, types.Uint64, types.Uintptr:
		return intKind{64, false}, true
	case types.Uint32:
		return intKind{32, false}, true
	case types.Uint16:
		return intKind{16, false}, true
	case types.Uint8:
		return intKind{8, false}, true
	}
	return intKind{}, false
}

func (k intKind) rangeOf(t Term) Term {
	if k.signed {
		return And(Ge(t, Neg(Pow2(k.bits-1))), Lt(t, Pow2(k.bits-1)))
	}
	return And(Ge(t, IntLit(0)), Lt(t, Pow2(k.bits)))
}

func isFloat(t types.Type) (Sort, bool) {
	t = resolveTP(t)
	b, ok := t.Underlying().(*types.Basic)
	if !ok {
		return "", false
	}
	switch b.Kind() {
	case types.Float64, types.UntypedFloat:
		return SF64, true
	case types.Float32:
		return SF32, true
	}
	return "", false
}

func isComplex(t types.Type) (Sort, bool) {
	b, ok := t.Underlying().(*types.Basic)
	if !ok {
		return "", false
	}
	switch b.Kind() {
	case types.Complex128, types.UntypedComplex:
		return SC128, true
	case types.Complex64:
		return SC64, true
	}
	return "", false
}

// scalarSort returns the SMT sort for scalar-like Go types ("" if not scalar).
func scalarSort(t types.Type) Sort {
	t = resolveTP(t)
	if _, ok := intInfo(t); ok {
		return SInt
	}
	if s, ok := isFloat(t); ok {
		return s
	}
	if s, ok := isComplex(t); ok {
		return s
	}
	switch u := t.Underlying().(type) {
	case *types.Basic:
		if u.Info()&types.IsBoolean != 0 {
			return SBool
		}
	case *types.Pointer, *types.Map, *types.Chan, *types.Signature:
		return SInt
	case *types.Interface:
		return SIfc
	}
	return ""
}

// memSortReg: memory array name -> sort, recorded whenever a name is formed from an element type.
var memSortReg sync.Map

func memName(elem types.Type) string {
	n := memName1(elem)
	if es := scalarSort(elem); es != "" {
		memSortReg.Store(n, ArraySort(SInt, ArraySort(SInt, es)))
	}
	return n
}

func memName1(elem types.Type) string {
	s := types.TypeString(elem.Underlying(), nil)
	s = strings.NewReplacer(" ", "_", "*", "p", "[", "L", "]", "R", ".", "_", "/", "_", "{", "_", "}", "_", ";", "_", "(", "_", ")", "_", ",", "_").Replace(s)
	if _, ok := elem.Underlying().(*types.Struct); ok {
		s = strings.NewReplacer(".", "_", "/", "_").Replace(types.TypeString(elem, nil))
	}
	return "Mem_" + s
}

func sortedKeys(m map[string]Term) []string {
	ks := make([]string, 0, len(m))
	for k := range m {
		ks = append(ks, k)
	}
	sort.Strings(ks)
	return ks
}

func valString(v Val) string {
	switch x := v.(type) {
	case Term:
		return x.S
	case SliceV:
		return fmt.Sprintf("slice(%s,%s,%s,%s)", x.Rid.S, x.Off.S, x.Len.S, x.Cap.S)
	case StructV:
		var p []string
		for _, f := range x.Fields {
			p = append(p, valString(f))
		}
		return "{" + strings.Join(p, ",") + "}"
	case PtrV:
		return "ptr(" + x.Ref.S + ")"
	case MapV:
		return "map(" + x.Ref.S + ")"
	case ArrayV:
		return "array(" + x.Arr.S + ")"
	case IfaceV:
		return "iface(" + x.T.S + ")"
	case StrV:
		return "str(" + x.ID.S + ")"
	case TupleV:
		var p []string
		for _, f := range x {
			p = append(p, valString(f))
		}
		return "(" + strings.Join(p, ",") + ")"
	case nil:
		return "<nil>"
	}
	return fmt.Sprintf("%T", v)
}
