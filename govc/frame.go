package main

// Write frames: every store (and every callee write set) must lie inside the
// function's declared `writes` families. Witness search keeps the queries
// quantifier free whenever possible.

import (
	"fmt"
	"go/ast"
	"go/token"
	"go/types"
	"regexp"
	"sort"
	"strings"
)

// famInst is a family instantiated in some environment.
type famInst struct {
	src   string
	sl    SliceV
	vars  []Term // bound variable constants (fresh)
	lo    []Term
	hi    []Term
	index Term // index expression over vars (relative to sl)
	cond  Term
	whole bool
}

func (fx *FuncCtx) instFamilies(env *specEnv, fams []Family) []famInst {
	return fx.instFamiliesNamed(env, fams, "k_")
}

// instFamiliesNamed: the function's own (cached) families get bound constants with a reserved
// prefix and a counter that snapshot/restore never rewinds, so that they can never coincide with
// the fresh constants of a callee's family instantiated later (a collision made f.at substitute
// into the wrong family: found by a contract-writing agent on Dpbtrs).
func (fx *FuncCtx) instFamiliesNamed(env *specEnv, fams []Family, prefix string) []famInst {
	var out []famInst
	for _, f := range fams {
		sv, ok := fx.specEval(env, f.Slice).v.(SliceV)
		if !ok {
			fx.unsupportedf("writes family %q: not a slice", f.Src)
		}
		fi := famInst{src: f.Src, sl: sv, whole: f.Whole, cond: tTrue}
		if !f.Whole {
			c := env.child()
			for i, v := range f.Vars {
				var k Term
				if prefix == "k_" {
					k = fx.freshConst("k_"+v, SInt)
				} else {
					fx.ownFamN++
					k = fx.declConst(fmt.Sprintf("%s%s_%d", prefix, smtName(v), fx.ownFamN), SInt)
					fx.permDecls = append(fx.permDecls, fmt.Sprintf("(declare-const %s Int)", k.S))
				}
				fi.vars = append(fi.vars, k)
				// bounds may mention earlier variables
				fi.lo = append(fi.lo, fx.specTerm(c, f.Lo[i]))
				fi.hi = append(fi.hi, fx.specTerm(c, f.Hi[i]))
				c.binds[v] = sval{k, nil}
			}
			fi.index = fx.specTerm(c, f.Index)
			if f.Cond != nil {
				fi.cond = fx.specBool(c, f.Cond)
			}
		}
		out = append(out, fi)
	}
	return out
}

// subst replaces the family's bound constants by the given terms (textual,
// the constants have unique names).
func (fi *famInst) at(ws []Term) (inRange Term, idx Term) {
	rep := func(t Term) Term {
		s := t.S
		for i, v := range fi.vars {
			s = replaceSym(s, v.S, ws[i].S)
		}
		return Term{s, t.Sort}
	}
	var cs []Term
	for i := range fi.vars {
		cs = append(cs, Le(rep(fi.lo[i]), ws[i]), Lt(ws[i], rep(fi.hi[i])))
	}
	cs = append(cs, rep(fi.cond))
	return And(cs...), rep(fi.index)
}

// replaceSym substitutes whole-symbol occurrences.
func replaceSym(s, sym, by string) string {
	if !strings.Contains(s, sym) {
		return s
	}
	var b strings.Builder
	for i := 0; i < len(s); {
		j := strings.Index(s[i:], sym)
		if j < 0 {
			b.WriteString(s[i:])
			break
		}
		j += i
		end := j + len(sym)
		leftOK := j == 0 || isDelim(s[j-1])
		rightOK := end == len(s) || isDelim(s[end])
		b.WriteString(s[i:j])
		if leftOK && rightOK {
			b.WriteString(by)
		} else {
			b.WriteString(sym)
		}
		i = end
	}
	return b.String()
}

func isDelim(c byte) bool { return c == ' ' || c == '(' || c == ')' }

// entryFamilies instantiates the function's own writes clauses at entry.
func (fx *FuncCtx) entryFamilies() []famInst {
	if fx.famOverride != nil {
		return fx.famOverride
	}
	if fx.famCache != nil || fx.con == nil {
		return fx.famCache
	}
	env := &specEnv{fx: fx, cur: fx.entry, old: fx.entry, binds: map[string]sval{}, entryParams: true}
	fx.famCache = fx.instFamiliesNamed(env, fx.con.Writes, "kown_")
	if fx.famCache == nil {
		fx.famCache = []famInst{}
	}
	return fx.famCache
}

func (fx *FuncCtx) visible(rid Term) bool {
	if strings.HasPrefix(rid.S, "alloc_arrview") {
		fx.unsupportedf("store through a slice of an array (aliasing with the array is not modelled)")
	}
	return !isAllocTerm(rid)
}

// witness candidates: loop counters and integer locals
func (fx *FuncCtx) witnessCands(st *State, extra []Term) []Term {
	seen := map[string]bool{}
	var out []Term
	add := func(t Term) {
		if t.Sort != SInt || seen[t.S] || len(t.S) > 200 {
			return
		}
		seen[t.S] = true
		out = append(out, t)
	}
	for _, e := range extra {
		add(e)
	}
	for i := len(fx.loops) - 1; i >= 0; i-- {
		add(fx.loops[i].it)
	}
	if fx.con != nil && fx.inlineDepth == 0 {
		for _, w := range fx.con.Witnesses {
			func() {
				defer func() {
					if r := recover(); r != nil {
						if _, is := r.(unsupported); !is {
							panic(r)
						}
					}
				}()
				pos := token.NoPos
				if fx.curNode != nil {
					pos = fx.curNode.Pos()
				}
				fx.discard++
				defer func() { fx.discard-- }()
				wenv := &specEnv{fx: fx, cur: st, old: fx.entry, binds: map[string]sval{}, pos: pos}
				if n := len(fx.loops); n > 0 {
					wenv.it = &fx.loops[n-1].it
				}
				t := fx.specTerm(wenv, w.Expr)
				add(t)
			}()
		}
	}
	// integer locals (not parameters' entry constants), innermost loops first is not known; sort by name for determinism
	type nv struct {
		name string
		t    Term
		pos  int
	}
	var locals []nv
	for obj, v := range st.vars {
		t, ok := v.(Term)
		if !ok || t.Sort != SInt {
			continue
		}
		if _, isLit := isIntLit(t); isLit {
			continue
		}
		locals = append(locals, nv{obj.Name(), t, int(obj.Pos())})
	}
	sort.Slice(locals, func(i, j int) bool { return locals[i].pos > locals[j].pos })
	for _, l := range locals {
		if len(out) >= 12 {
			break
		}
		add(l.t)
	}
	add(IntLit(0))
	return out
}

func tuples(cands []Term, n int, limit int) [][]Term {
	if n == 0 {
		return [][]Term{{}}
	}
	var out [][]Term
	sub := tuples(cands, n-1, limit)
	for _, s := range sub {
		for _, c := range cands {
			t := append(append([]Term{}, s...), c)
			out = append(out, t)
			if len(out) >= limit {
				return out
			}
		}
	}
	return out
}

// entryRid: the region of a parameter as named at entry (x$rid); loop-havocked (x@L1$rid) and
// returned (ret_f!2$rid) slices may hold a region allocated during the call.
var entryRid = regexp.MustCompile(`^[A-Za-z_][A-Za-z0-9_.]*\$rid$`)

func isEntryRid(s string) bool { return entryRid.MatchString(s) && !strings.HasPrefix(s, "ret_") }

// memberGoal: cell (rid, addr) belongs to one of the families (witness form).
func (fx *FuncCtx) memberGoal(st *State, fams []famInst, rid, addr Term, extra []Term) Term {
	// a small goal first: witnesses from the access itself, the loop counters, the contract's
	// hints and the polynomial decomposition; if that is provable quickly it is the obligation
	// (small queries are the stable ones), otherwise the full witness search
	// an address that is a merge of two branches (sub-slice chosen under a flag): decide each
	// branch with its own witnesses
	if fx.iteSplitDepth < 2 {
		if c, a1, a2, ok := splitFirstIte(fx.expandIteDefs(addr)); ok {
			fx.iteSplitDepth++
			s1 := st.clone()
			s1.assume(c)
			g1 := fx.memberGoal(s1, fams, rid, a1, extra)
			s2 := st.clone()
			s2.assume(Not(c))
			g2 := fx.memberGoal(s2, fams, rid, a2, extra)
			fx.iteSplitDepth--
			return And(Implies(c, g1), Implies(Not(c), g2))
		}
	}
	// a region allocated during this call (negative id; a merged "nil ? fresh : given" slice is
	// not syntactically an allocation) is not part of the caller-visible frame
	fresh := tFalse
	if !isAllocTerm(rid) && !isEntryRid(rid.S) {
		fresh = Lt(rid, IntLit(0))
	}
	if fx.discard == 0 {
		// (4x the quick limit: with 1x the choice between the small and the full goal depended on
		// whether a 0.9 s query finished within 1.5 s on the machine at hand: an alarm on the
		// unchanged tree in a fresh-sandbox run, Dorgql call.frame#27)
		if g := Or(fresh, fx.memberGoalLevel(st, fams, rid, addr, extra, true)); g.S == "true" || (g.S != "false" && fx.proves(st.hypTerms(), g, 4*fx.eng.quickTimeoutMs)) {
			return g
		}
	}
	return Or(fresh, fx.memberGoalLevel(st, fams, rid, addr, extra, false))
}

// expandIteDefs replaces named abbreviations (define) whose body contains an ite by their body.
func (fx *FuncCtx) expandIteDefs(t Term) Term {
	for round := 0; round < 3; round++ {
		changed := false
		for name, body := range fx.defs {
			if strings.Contains(body, "(ite ") && replaceSym(t.S, name, "") != t.S {
				t = Term{replaceSym(t.S, name, body), t.Sort}
				changed = true
			}
		}
		if !changed {
			break
		}
	}
	return t
}

// splitFirstIte finds the first (ite c a b) of sort Int inside t whose condition has no bound
// variable and returns c and the two terms with the ite replaced by a resp. b.
func splitFirstIte(t Term) (Term, Term, Term, bool) {
	i := strings.Index(t.S, "(ite ")
	if i < 0 {
		return Term{}, Term{}, Term{}, false
	}
	depth, end := 0, -1
	for j := i; j < len(t.S); j++ {
		if t.S[j] == '(' {
			depth++
		} else if t.S[j] == ')' {
			depth--
			if depth == 0 {
				end = j + 1
				break
			}
		}
	}
	if end < 0 {
		return Term{}, Term{}, Term{}, false
	}
	n := parseSx(t.S[i:end])
	if len(n.kids) != 4 {
		return Term{}, Term{}, Term{}, false
	}
	c := n.kids[1].String()
	// only flags (a boolean symbol, possibly negated): splitting on arithmetic conditions such as
	// the sign of a uintptr increment would change every kernel obligation
	if hasBoundVar(c) || strings.ContainsAny(strings.TrimSuffix(strings.TrimPrefix(c, "(not "), ")"), "() ") {
		return Term{}, Term{}, Term{}, false
	}
	ite := t.S[i:end]
	return Term{c, SBool}, Term{strings.ReplaceAll(t.S, ite, n.kids[2].String()), t.Sort}, Term{strings.ReplaceAll(t.S, ite, n.kids[3].String()), t.Sort}, true
}

func (fx *FuncCtx) primaryCands(st *State, extra []Term) []Term {
	all := fx.witnessCands(st, extra)
	n := len(extra) + len(fx.loops)
	if fx.con != nil && fx.inlineDepth == 0 {
		n += len(fx.con.Witnesses)
	}
	if n > len(all) {
		n = len(all)
	}
	out := append([]Term{}, all[:n]...)
	out = append(out, IntLit(0))
	return out
}

func (fx *FuncCtx) memberGoalLevel(st *State, fams []famInst, rid, addr Term, extra []Term, primary bool) Term {
	var alts []Term
	for _, f := range fams {
		same := Eq(rid, f.sl.Rid)
		if same.S == "false" {
			continue
		}
		rel := Sub(addr, f.sl.Off)
		if f.whole {
			alts = append(alts, And(same, Ge(rel, IntLit(0)), Lt(rel, f.sl.Len)))
			continue
		}
		if len(f.vars) == 0 {
			alts = append(alts, And(same, f.cond, Eq(rel, f.index)))
			continue
		}
		var cands []Term
		if primary {
			cands = fx.primaryCands(st, append(append([]Term{}, extra...), rel))
		} else {
			cands = fx.witnessCands(st, append(append([]Term{}, extra...), rel))
		}
		// reversed traversal: hi-1-e (+lo) for the explicit hints
		for i := range f.vars {
			if len(f.vars) == 1 || !mentionsAnyVar(f.hi[i], f.vars) {
				for _, e := range extra {
					if len(e.S) < 120 {
						cands = append(cands, Sub(Sub(Add(f.hi[i], f.lo[i]), IntLit(1)), e))
					}
				}
			}
		}
		if len(f.vars) == 1 && !primary {
			// sums and differences of pairs (inner counters offset by outer ones)
			base := cands
			if len(base) > 11 {
				base = base[:11]
			}
			for _, a := range base {
				for _, b := range base {
					if a.S == b.S || len(a.S)+len(b.S) > 160 {
						continue
					}
					cands = append(cands, Add(a, b), Add(Add(a, b), IntLit(1)), Sub(Sub(a, b), IntLit(1)))
				}
			}
		}
		// coefficient decomposition of the address polynomial with respect to the family's stride symbols
		for _, ws := range fx.decompose(f, rel) {
			inr, idx := f.at(ws)
			alts = append(alts, And(same, inr, Eq(rel, idx)))
		}
		lim := 400
		if primary {
			lim = 40
		}
		for _, ws := range tuples(cands, len(f.vars), lim) {
			inr, idx := f.at(ws)
			alts = append(alts, And(same, inr, Eq(rel, idx)))
		}
	}
	return Or(alts...)
}

func (fx *FuncCtx) memberGoalExists(fams []famInst, rid, addr Term) Term {
	var alts []Term
	for _, f := range fams {
		same := Eq(rid, f.sl.Rid)
		rel := Sub(addr, f.sl.Off)
		if f.whole {
			alts = append(alts, And(same, Ge(rel, IntLit(0)), Lt(rel, f.sl.Len)))
			continue
		}
		var cs []Term
		for i, v := range f.vars {
			cs = append(cs, Le(f.lo[i], v), Lt(v, f.hi[i]))
		}
		body := And(append(cs, f.cond, Eq(rel, f.index), same)...)
		if len(f.vars) == 0 {
			alts = append(alts, body)
			continue
		}
		var bs []string
		for _, v := range f.vars {
			bs = append(bs, fmt.Sprintf("(%s Int)", v.S+"_e"))
		}
		s := body.S
		for _, v := range f.vars {
			s = replaceSym(s, v.S, v.S+"_e")
		}
		alts = append(alts, Term{fmt.Sprintf("(exists (%s) %s)", strings.Join(bs, " "), s), SBool})
	}
	return Or(alts...)
}

// checkStore: obligations for a store to sv[idx].
// raceCheck: the parent goroutine touches (rid, addr) while goroutines with
// declared footprints may be running: the cell must be outside all of them.
func (fx *FuncCtx) raceCheck(st *State, rid, addr Term, node ast.Node, what string) {
	if fx.goDepth > 0 || len(fx.outstanding) == 0 {
		return
	}
	// conservative: the whole region of a footprint slice is off limits until the join
	var ds []Term
	seen := map[string]bool{}
	for _, f := range fx.outstanding {
		if !seen[f.sl.Rid.S] {
			seen[f.sl.Rid.S] = true
			ds = append(ds, Not(Eq(rid, f.sl.Rid)))
		}
	}
	fx.obligeKind(st, "go.race", And(ds...), node, what+" while goroutines are running")
}

func (fx *FuncCtx) checkStore(st *State, sv SliceV, idx Term, node ast.Node) {
	fx.curNode = node
	fx.raceCheck(st, sv.Rid, Add(sv.Off, idx), node, "store")
	fx.loopStoreCheck(sv, node)
	if !fx.visible(sv.Rid) {
		return
	}
	if fx.con != nil && fx.con.HasWrites && fx.inlineDepth >= 0 {
		fams := fx.entryFamilies()
		addr := Add(sv.Off, idx)
		goal := fx.memberGoal(st, fams, sv.Rid, addr, []Term{idx})
		if fx.discard == 0 && goal.S != "true" {
			// quick attempt with witnesses, else the existential form
			if !fx.proves(st.hypTerms(), goal, fx.eng.quickTimeoutMs) {
				goal = Or(goal, fx.memberGoalExists(fams, sv.Rid, addr))
			}
		}
		fx.oblige(st, "frame", goal, node, "")
	}
	fx.clearPoison(st, sv, idx)
	st.written = tTrue
}

func (fx *FuncCtx) checkStoreRange(st *State, sv SliceV, lo, n Term, node ast.Node) {
	fx.loopStoreCheck(sv, node)
	if !fx.visible(sv.Rid) {
		return
	}
	if fx.con != nil && fx.con.HasWrites {
		fams := fx.entryFamilies()
		k := fx.freshConst("k_cp", SInt)
		s2 := st.clone()
		s2.assume(And(Le(lo, k), Lt(k, Add(lo, n))))
		addr := Add(sv.Off, k)
		goal := fx.memberGoal(s2, fams, sv.Rid, addr, []Term{k})
		fx.oblige(s2, "frame", goal, node, "")
	}
	st.written = fx.define("written", Or(st.written, Gt(n, IntLit(0))))
}

// checkCallFrame: the callee's write family lies inside ours.
func (fx *FuncCtx) checkCallFrame(st *State, f famInst, node ast.Node, what string) {
	fx.curNode = node
	if av, ok := fx.arrViewSrc[f.sl.Rid.S]; ok && fx.goDepth == 0 {
		// the callee writes through a slice of an array (argument a[:]): the array itself becomes
		// unknown; if it lives in a heap object that is a modification of that object, which the
		// function's modifies clause has to allow (checked at exit)
		v, facts := fx.freshVal("arrhavoc", av.t)
		for _, fc := range facts {
			st.assume(fc)
		}
		fx.assignTo(st, av.src, v, av.t)
		st.written = tTrue
		return
	}
	if fx.goDepth == 0 && len(fx.outstanding) > 0 && what != "goroutine footprint" {
		s2 := st.clone()
		var rng []Term
		for i, v := range f.vars {
			rng = append(rng, Le(f.lo[i], v), Lt(v, f.hi[i]))
		}
		s2.assume(And(append(rng, f.cond)...))
		if f.whole {
			k := fx.freshConst("k_r", SInt)
			s2.assume(And(Ge(k, IntLit(0)), Lt(k, f.sl.Len)))
			fx.raceCheck(s2, f.sl.Rid, Add(f.sl.Off, k), node, what)
		} else {
			fx.raceCheck(s2, f.sl.Rid, Add(f.sl.Off, f.index), node, what)
		}
	}
	fx.loopStoreCheck(f.sl, node)
	if !fx.visible(f.sl.Rid) {
		return
	}
	nonEmpty := tTrue
	var rng []Term
	for i, v := range f.vars {
		rng = append(rng, Le(f.lo[i], v), Lt(v, f.hi[i]))
	}
	rng = append(rng, f.cond)
	if fx.con != nil && fx.con.HasWrites {
		fams := fx.entryFamilies()
		s2 := st.clone()
		var addr Term
		if f.whole {
			k := fx.freshConst("k_w", SInt)
			s2.assume(And(Ge(k, IntLit(0)), Lt(k, f.sl.Len)))
			addr = Add(f.sl.Off, k)
			goal := fx.memberGoal(s2, fams, f.sl.Rid, addr, []Term{k})
			fx.oblige(s2, "call.frame", goal, node, what+" writes "+f.src)
		} else {
			s2.assume(And(rng...))
			addr = Add(f.sl.Off, f.index)
			extra := append([]Term{}, f.vars...)
			extra = append(extra, f.index)
			goal := fx.memberGoal(s2, fams, f.sl.Rid, addr, extra)
			if fx.discard == 0 && goal.S != "true" {
				if !fx.proves(s2.hypTerms(), goal, fx.eng.quickTimeoutMs) {
					goal = Or(goal, fx.memberGoalExists(fams, f.sl.Rid, addr))
				}
			}
			fx.oblige(s2, "call.frame", goal, node, what+" writes "+f.src)
		}
	}
	if f.whole {
		nonEmpty = Gt(f.sl.Len, IntLit(0))
	} else {
		var ne []Term
		for i := range f.vars {
			ne = append(ne, Lt(f.lo[i], f.hi[i]))
		}
		nonEmpty = And(ne...)
	}
	st.written = fx.define("written", Or(st.written, nonEmpty))
}

// havocFamily: after a call, the cells of the callee's family are unknown.
func (fx *FuncCtx) havocFamily(st *State, f famInst) {
	if _, ok := f.sl.Elem.Underlying().(*types.Struct); ok {
		fx.unsupportedf("callee writes slice of structs")
	}
	es := fx.elemSort(f.sl.Elem)
	name := memName(f.sl.Elem)
	m := fx.heapGet(st, name, fx.memSort(f.sl.Elem))
	old := Select(m, f.sl.Rid, ArraySort(SInt, es))
	row := fx.freshConst("row_"+name, ArraySort(SInt, es))
	// preservation outside the family when it is an interval
	if f.whole {
		q := fx.freshName("q_f")
		st.assume(Term{fmt.Sprintf("(forall ((%s Int)) (=> (not (and (<= %s %s) (< %s (+ %s %s)))) (= (select %s %s) (select %s %s))))",
			q, f.sl.Off.S, q, q, f.sl.Off.S, f.sl.Len.S, row.S, q, old.S, q), SBool})
	} else if len(f.vars) == 1 && f.cond.S == "true" {
		// index of the form base + k (unit stride)?
		_, i0 := f.at([]Term{IntLit(0)})
		_, i1 := f.at([]Term{IntLit(1)})
		if d := Sub(i1, i0); d.S == "1" || fx.unitStride(f) {
			q := fx.freshName("q_f")
			lo := Add(f.sl.Off, replaceIdx(f, f.lo[0]))
			hi := Add(f.sl.Off, replaceIdx(f, f.hi[0]))
			st.assume(Term{fmt.Sprintf("(forall ((%s Int)) (=> (not (and (<= %s %s) (< %s %s))) (= (select %s %s) (select %s %s))))",
				q, lo.S, q, q, hi.S, row.S, q, old.S, q), SBool})
		}
	}
	if !f.whole && !(len(f.vars) == 1 && f.cond.S == "true" && fx.unitStrideOK(f)) && len(f.vars) <= 2 {
		// general family (strided, two-dimensional, conditional): a cell that is not a member keeps its
		// value. The inner quantifier sits in the antecedent, so using the fact for a concrete cell
		// means refuting membership of that cell (a skolemised, quantifier-free subgoal).
		q := fx.freshName("q_f")
		var bs, rng []string
		body := f.index.S
		cond := f.cond.S
		los := make([]string, len(f.vars))
		his := make([]string, len(f.vars))
		for i := range f.vars {
			los[i], his[i] = f.lo[i].S, f.hi[i].S
		}
		for i, v := range f.vars {
			nv := fx.freshName("q_fk")
			bs = append(bs, fmt.Sprintf("(%s Int)", nv))
			body = replaceSym(body, v.S, nv)
			cond = replaceSym(cond, v.S, nv)
			for j := range los {
				los[j] = replaceSym(los[j], v.S, nv)
				his[j] = replaceSym(his[j], v.S, nv)
			}
			_ = i
		}
		for i := range f.vars {
			nv := strings.TrimSuffix(strings.TrimPrefix(bs[i], "("), " Int)")
			rng = append(rng, fmt.Sprintf("(<= %s %s) (< %s %s)", los[i], nv, nv, his[i]))
		}
		member := fmt.Sprintf("(and %s %s (= %s (+ %s %s)))", strings.Join(rng, " "), cond, q, f.sl.Off.S, body)
		if len(bs) == 0 {
			st.assume(Term{fmt.Sprintf("(forall ((%s Int)) (=> (not %s) (= (select %s %s) (select %s %s))))",
				q, member, row.S, q, old.S, q), SBool})
		} else {
			st.assume(Term{fmt.Sprintf("(forall ((%s Int)) (=> (forall (%s) (not %s)) (= (select %s %s) (select %s %s))))",
				q, strings.Join(bs, " "), member, row.S, q, old.S, q), SBool})
		}
	}
	if k, ok := intInfo(f.sl.Elem); ok {
		q := fx.freshName("q_r")
		st.assume(Term{fmt.Sprintf("(forall ((%s Int)) %s)", q, k.rangeOf(Select(row, Term{q, SInt}, SInt)).S), SBool})
	}
	st.heap[name] = fx.define(name, Store(m, f.sl.Rid, row))
}

// unitStrideOK: the family is an interval of consecutive cells (handled by the interval fact above).
func (fx *FuncCtx) unitStrideOK(f famInst) bool {
	if len(f.vars) != 1 {
		return false
	}
	_, i0 := f.at([]Term{IntLit(0)})
	_, i1 := f.at([]Term{IntLit(1)})
	return Sub(i1, i0).S == "1" || fx.unitStride(f)
}

func replaceIdx(f famInst, at Term) Term {
	_, idx := f.at([]Term{at})
	return idx
}

// unitStride: index is syntactically "c + k" / "k + c" / "k".
func (fx *FuncCtx) unitStride(f famInst) bool {
	k := f.vars[0].S
	s := f.index.S
	if s == k {
		return true
	}
	if strings.HasPrefix(s, "(+ ") {
		parts := splitSexp(s[3 : len(s)-1])
		n := 0
		for _, p := range parts {
			if p == k {
				n++
			} else if strings.Contains(p, k) {
				return false
			}
		}
		return n == 1
	}
	return false
}

func splitSexp(s string) []string {
	var out []string
	depth := 0
	start := 0
	for i := 0; i < len(s); i++ {
		switch s[i] {
		case '(':
			depth++
		case ')':
			depth--
		case ' ':
			if depth == 0 {
				if i > start {
					out = append(out, s[start:i])
				}
				start = i + 1
			}
		}
	}
	if start < len(s) {
		out = append(out, s[start:])
	}
	return out
}

// loopStoreCheck: stores inside a loop must go to regions the loop head havocked.
func (fx *FuncCtx) loopStoreCheck(sv SliceV, node ast.Node) {
	if _, isStruct := sv.Elem.Underlying().(*types.Struct); isStruct {
		return
	}
	name := memName(sv.Elem)
	for _, lf := range fx.loops {
		rs, ok := lf.memHavoc[name]
		if !ok {
			if lf.memSeen == nil {
				lf.memSeen = map[string]bool{}
			}
			// memory of this sort was not known before the loop: it was first touched inside; treat as whole-havoc by construction (fresh constant declared lazily)
			continue
		}
		if rs == nil {
			continue // whole memory havocked
		}
		hit := false
		for _, r := range rs {
			if r == sv.Rid.S {
				hit = true
			}
		}
		if !hit && !fx.allocatedInside(lf, sv.Rid) {
			fx.unsupportedf("store through %s inside loop %d to a region not covered by the loop frame analysis", fx.src(node), lf.ord)
		}
	}
}

func (fx *FuncCtx) allocatedInside(lf *loopFrame, rid Term) bool {
	if !isAllocTerm(rid) {
		return false
	}
	for _, a := range lf.pre.allocs {
		if a.S == rid.S {
			return false
		}
	}
	return true
}

// --- no-read-before-write (poison) -------------------------------------------

func (fx *FuncCtx) noteRead(st *State, sv SliceV, idx Term, node ast.Node) {
	fx.checkLoad(st, sv, idx, node)
	if fx.poison == nil {
		return
	}
	fx.checkPoison(st, sv, idx, node)
}

func (fx *FuncCtx) noteReadRange(st *State, sv SliceV, lo, n Term, node ast.Node) {
	if fx.poison == nil && !fx.readsChecked() {
		return
	}
	k := fx.freshConst("k_rd", SInt)
	s2 := st.clone()
	s2.assume(And(Le(lo, k), Lt(k, Add(lo, n))))
	fx.checkLoad(s2, sv, k, node)
	if fx.poison != nil {
		fx.checkPoison(s2, sv, k, node)
	}
}

// --- read frames -----------------------------------------------------------------
// A contract with a `reads` clause promises that every load from memory the
// caller can see lies inside the declared read families or the write families
// (a routine may read back what it is allowed to write).

func (fx *FuncCtx) readsChecked() bool {
	return fx.con != nil && fx.con.HasReads && fx.discard == 0
}

func (fx *FuncCtx) entryReadFamilies() []famInst {
	if fx.rfamCache == nil {
		env := &specEnv{fx: fx, cur: fx.entry, old: fx.entry, binds: map[string]sval{}, entryParams: true}
		fx.rfamCache = fx.instFamiliesNamed(env, fx.con.Reads, "kownr_")
		if fx.rfamCache == nil {
			fx.rfamCache = []famInst{}
		}
	}
	return append(append([]famInst{}, fx.rfamCache...), fx.entryFamilies()...)
}

func (fx *FuncCtx) checkLoad(st *State, sv SliceV, idx Term, node ast.Node) {
	if !fx.readsChecked() || isAllocTerm(sv.Rid) {
		return
	}
	if _, isStruct := sv.Elem.Underlying().(*types.Struct); isStruct {
		return
	}
	fx.curNode = node
	fams := sameRegionFams(fx.entryReadFamilies(), sv.Rid)
	addr := Add(sv.Off, idx)
	goal := fx.memberGoal(st, fams, sv.Rid, addr, []Term{idx})
	if goal.S != "true" {
		if !fx.proves(st.hypTerms(), goal, fx.eng.quickTimeoutMs) {
			goal = Or(goal, fx.memberGoalExists(fams, sv.Rid, addr))
		}
	}
	fx.oblige(st, "rframe", goal, node, "")
}

// sameRegionFams keeps the families declared on the region that is accessed when
// the region is syntactically one of the declared ones (a sufficient condition
// with far fewer alternatives); otherwise all families are candidates.
func sameRegionFams(fams []famInst, rid Term) []famInst {
	var out []famInst
	for _, f := range fams {
		if f.sl.Rid.S == rid.S {
			out = append(out, f)
		}
	}
	if len(out) == 0 {
		return fams
	}
	return out
}

// checkCallReadFrame: the callee's read (and write) family lies inside our reads ∪ writes.
func (fx *FuncCtx) checkCallReadFrame(st *State, f famInst, node ast.Node, what string) {
	if !fx.readsChecked() || isAllocTerm(f.sl.Rid) {
		return
	}
	fx.curNode = node
	fams := sameRegionFams(fx.entryReadFamilies(), f.sl.Rid)
	s2 := st.clone()
	if f.whole {
		k := fx.freshConst("k_rw", SInt)
		s2.assume(And(Ge(k, IntLit(0)), Lt(k, f.sl.Len)))
		goal := fx.memberGoal(s2, fams, f.sl.Rid, Add(f.sl.Off, k), []Term{k})
		fx.oblige(s2, "call.rframe", goal, node, what+" reads "+f.src)
		return
	}
	var rng []Term
	for i, v := range f.vars {
		rng = append(rng, Le(f.lo[i], v), Lt(v, f.hi[i]))
	}
	rng = append(rng, f.cond)
	s2.assume(And(rng...))
	addr := Add(f.sl.Off, f.index)
	extra := append([]Term{}, f.vars...)
	extra = append(extra, f.index)
	goal := fx.memberGoal(s2, fams, f.sl.Rid, addr, extra)
	if goal.S != "true" {
		if !fx.proves(s2.hypTerms(), goal, fx.eng.quickTimeoutMs) {
			goal = Or(goal, fx.memberGoalExists(fams, f.sl.Rid, addr))
		}
	}
	fx.oblige(s2, "call.rframe", goal, node, what+" reads "+f.src)
}

func mentionsAnyVar(t Term, vars []Term) bool {
	for _, v := range vars {
		if replaceSym(t.S, v.S, "") != t.S {
			return true
		}
	}
	return false
}

// decompose proposes witnesses by writing rel as a polynomial in the stride
// symbol of the family index (A*ld + B -> (A, B); base + K*inc -> K).
func (fx *FuncCtx) decompose(f famInst, rel Term) [][]Term {
	if len(f.vars) == 0 || len(f.vars) > 2 {
		return nil
	}
	var it []sterm
	flattenSum(parseSx(f.index.S), false, fx.defs, 0, &it)
	// stride symbol of the first variable
	v0 := f.vars[0].S
	stride := ""
	var baseTerms []sterm
	unit := map[string]bool{}
	for _, t := range it {
		s := t.t.String()
		if t.t.isApp("*") && len(t.t.kids) == 3 && !t.neg {
			if t.t.kids[1].String() == v0 && !mentionsAnyVar(Term{t.t.kids[2].String(), SInt}, f.vars) {
				stride = t.t.kids[2].String()
				continue
			}
			if t.t.kids[2].String() == v0 && !mentionsAnyVar(Term{t.t.kids[1].String(), SInt}, f.vars) {
				stride = t.t.kids[1].String()
				continue
			}
		}
		isVar := false
		for _, v := range f.vars {
			if s == v.S && !t.neg {
				unit[v.S] = true
				isVar = true
			}
		}
		if !isVar {
			if mentionsAnyVar(Term{s, SInt}, f.vars) {
				return nil
			}
			baseTerms = append(baseTerms, t)
		}
	}
	var rt []sterm
	flattenSum(parseSx(Sub(rel, sumOf(baseTerms)).S), false, fx.defs, 0, &rt)
	// cancel syntactically equal opposite terms
	rt = cancelTerms(rt)
	switch len(f.vars) {
	case 1:
		if stride == "" {
			if unit[v0] {
				return [][]Term{{sumOf(rt)}}
			}
			return nil
		}
		co, rest := splitByFactor(rt, stride)
		if len(rest) != 0 {
			return nil
		}
		return [][]Term{{sumOf(co)}}
	case 2:
		if stride == "" || !unit[f.vars[1].S] {
			return nil
		}
		co, rest := splitByFactor(rt, stride)
		return [][]Term{{sumOf(co), sumOf(rest)}}
	}
	return nil
}

func cancelTerms(ts []sterm) []sterm {
	used := make([]bool, len(ts))
	var out []sterm
	for i := range ts {
		if used[i] {
			continue
		}
		si := ts[i].t.String()
		cancelled := false
		for j := i + 1; j < len(ts); j++ {
			if !used[j] && ts[j].neg != ts[i].neg && ts[j].t.String() == si {
				used[j] = true
				cancelled = true
				break
			}
		}
		if !cancelled {
			out = append(out, ts[i])
		}
	}
	return out
}
