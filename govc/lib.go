package main

// Models of standard-library functions (assumption A8 / A3 of DESIGN.md).

import (
	"fmt"
	"go/ast"
	"go/types"
	"math"
	"strings"
)

func (fx *FuncCtx) fsuffix(s Sort) string {
	if s == SF32 {
		return "32"
	}
	return "64"
}

func (fx *FuncCtx) mathAbs(a Term) Term {
	if fx.real {
		return Ite(app(SBool, "<", a, Term{"0.0", a.Sort}), app(a.Sort, "-", a), a)
	}
	if fx.ieee {
		return app(a.Sort, "fp.abs", a)
	}
	fn := "fabs" + fx.fsuffix(a.Sort)
	fx.declFun(fn, []Sort{a.Sort}, a.Sort)
	return app(a.Sort, fn, a)
}

func (fx *FuncCtx) mathIsNaN(a Term) Term {
	if fx.real {
		return tFalse
	}
	if fx.ieee {
		return app(SBool, "fp.isNaN", a)
	}
	fn := "fisnan" + fx.fsuffix(a.Sort)
	fx.declFun(fn, []Sort{a.Sort}, SBool)
	return app(SBool, fn, a)
}

func (fx *FuncCtx) mathIsInf(a Term, sign int64) Term {
	if fx.real {
		return tFalse
	}
	if fx.ieee {
		inf := app(SBool, "fp.isInfinite", a)
		switch {
		case sign > 0:
			return And(inf, app(SBool, "fp.isPositive", a))
		case sign < 0:
			return And(inf, app(SBool, "fp.isNegative", a))
		}
		return inf
	}
	fn := fmt.Sprintf("fisinf%s_%d", fx.fsuffix(a.Sort), sign+1)
	fx.declFun(fn, []Sort{a.Sort}, SBool)
	return app(SBool, fn, a)
}

// libraryModel handles calls into packages that are not verified.
func (fx *FuncCtx) libraryModel(st *State, callee *types.Func, qn string, recv Val, call *ast.CallExpr) (Val, bool) {
	if callee.Pkg() == nil {
		return nil, false
	}
	path := callee.Pkg().Path()
	if path == "gonum.org/v1/gonum/internal/math32" {
		// float32 twins of the math functions (the package implements them with bit tricks)
		at := func(i int) Term { return fx.evalTerm(st, call.Args[i]) }
		switch callee.Name() {
		case "Abs":
			return fx.mathAbs(at(0)), true
		case "IsNaN":
			return fx.mathIsNaN(at(0)), true
		case "IsInf":
			a, sg := at(0), at(1)
			if n, ok := isIntLit(sg); ok {
				return fx.mathIsInf(a, sign64(n)), true
			}
			return Ite(Gt(sg, IntLit(0)), fx.mathIsInf(a, 1), Ite(Lt(sg, IntLit(0)), fx.mathIsInf(a, -1), fx.mathIsInf(a, 0))), true
		case "NaN":
			if fx.ieee {
				return Term{"(_ NaN 8 24)", SF32}, true
			}
			if !fx.real {
				fx.declare("(declare-const math32_NaN F32)")
				return Term{"math32_NaN", SF32}, true
			}
		case "Inf":
			sg := at(0)
			if fx.ieee {
				return Ite(Ge(sg, IntLit(0)), Term{"(_ +oo 8 24)", SF32}, Term{"(_ -oo 8 24)", SF32}), true
			}
			if !fx.real {
				fx.declFun("math32_Inf", []Sort{SBool}, SF32)
				return app(SF32, "math32_Inf", Ge(sg, IntLit(0))), true
			}
		}
		return nil, false
	}
	if strings.HasPrefix(path, "gonum.org/v1/gonum") {
		return nil, false
	}
	sig := callee.Type().(*types.Signature)
	argT := func(i int) Term { return fx.evalTerm(st, call.Args[i]) }
	switch path {
	case "math":
		switch callee.Name() {
		case "Abs":
			return fx.mathAbs(argT(0)), true
		case "Floor", "Ceil", "Trunc", "Max", "Min", "Sqrt":
			if !fx.real && callee.Name() == "Sqrt" {
				if v, ok := floatLitValue(argT(0)); ok {
					return fx.floatConst(math.Sqrt(v), SF64), true
				}
				if fx.ieee && fx.con != nil && fx.con.Options["nan-axioms"] == "true" {
					// uninterpreted, with the IEEE facts about sign and NaN of a square root
					fx.declFun("fsqrt64", []Sort{SF64}, SF64)
					fx.declare("(assert (forall ((a F64)) (! (and (= (fp.isNaN (fsqrt64 a)) (or (fp.isNaN a) (fp.lt a (_ +zero 11 53)))) (=> (fp.gt a (_ +zero 11 53)) (fp.gt (fsqrt64 a) (_ +zero 11 53))) (=> (fp.isZero a) (fp.isZero (fsqrt64 a)))) :pattern ((fsqrt64 a)))))")
					return app(SF64, "fsqrt64", argT(0)), true
				}
			}
			if fx.real {
				a := argT(0)
				zero := Term{"0.0", a.Sort}
				floor := func(x Term) Term { return app(a.Sort, "to_real", app(SInt, "to_int", x)) }
				switch callee.Name() {
				case "Floor":
					return floor(a), true
				case "Ceil":
					return app(a.Sort, "-", floor(app(a.Sort, "-", a))), true
				case "Trunc":
					return Ite(app(SBool, ">=", a, zero), floor(a), app(a.Sort, "-", floor(app(a.Sort, "-", a)))), true
				case "Max":
					b := argT(1)
					return Ite(app(SBool, ">=", a, b), a, b), true
				case "Min":
					b := argT(1)
					return Ite(app(SBool, "<=", a, b), a, b), true
				case "Sqrt":
					fx.declFun("real_sqrt", []Sort{a.Sort}, a.Sort)
					r := app(a.Sort, "real_sqrt", a)
					st.assume(Implies(app(SBool, ">=", a, zero), And(app(SBool, ">=", r, zero), app(SBool, "=", app(a.Sort, "*", r, r), a))))
					return r, true
				}
			}
		case "IsNaN":
			return fx.mathIsNaN(argT(0)), true
		case "IsInf":
			a := argT(0)
			s := argT(1)
			if n, ok := isIntLit(s); ok {
				return fx.mathIsInf(a, sign64(n)), true
			}
			return Ite(Gt(s, IntLit(0)), fx.mathIsInf(a, 1), Ite(Lt(s, IntLit(0)), fx.mathIsInf(a, -1), fx.mathIsInf(a, 0))), true
		case "Inf":
			s := argT(0)
			if fx.ieee {
				return Ite(Ge(s, IntLit(0)), Term{"(_ +oo 11 53)", SF64}, Term{"(_ -oo 11 53)", SF64}), true
			}
			fx.declFun("math_Inf", []Sort{SBool}, SF64)
			return app(SF64, "math_Inf", Ge(s, IntLit(0))), true
		case "NaN":
			if fx.ieee {
				return Term{"(_ NaN 11 53)", SF64}, true
			}
			fx.declare("(declare-const math_NaN F64)")
			return Term{"math_NaN", SF64}, true
		case "Float64bits":
			fx.declFun("f64bits", []Sort{SF64}, SInt)
			fx.declFun("f64frombits", []Sort{SInt}, SF64)
			a := argT(0)
			r := app(SInt, "f64bits", a)
			st.assume(And(Ge(r, IntLit(0)), Lt(r, Pow2(64))))
			return r, true
		case "Float64frombits":
			fx.declFun("f64bits", []Sort{SF64}, SInt)
			fx.declFun("f64frombits", []Sort{SInt}, SF64)
			a := argT(0)
			return app(SF64, "f64frombits", a), true
		}
		// generic: uninterpreted function of the arguments
		return fx.uninterpretedCall(st, "math_"+callee.Name(), sig, call), true
	case "math/cmplx", "math/bits":
		return fx.uninterpretedCall(st, strings.ReplaceAll(path, "/", "_")+"_"+callee.Name(), sig, call), true
	case "fmt":
		switch callee.Name() {
		case "Sprintf", "Sprint", "Errorf", "Sprintln":
			for _, a := range call.Args {
				fx.eval(st, a)
			}
			v, facts := fx.freshVal("fmt_"+callee.Name(), sig.Results().At(0).Type())
			for _, f := range facts {
				st.assume(f)
			}
			return v, true
		}
	case "errors":
		if callee.Name() == "New" {
			v, _ := fx.freshVal("err_new", sig.Results().At(0).Type())
			fx.declare("(declare-const nilIface Iface)")
			st.assume(Not(Eq(v.(IfaceV).T, Term{"nilIface", SIfc})))
			return v, true
		}
	case "sort":
		return fx.sortModel(st, callee, call)
	case "slices":
		if callee.Name() == "Reverse" && len(call.Args) == 1 {
			// slices.Reverse(s): in place, s[k] becomes the old s[len-1-k]; nothing else changes (exact)
			sv, ok := fx.eval(st, call.Args[0]).(SliceV)
			if !ok {
				return nil, false
			}
			if scalarSort(sv.Elem) == "" {
				return nil, false
			}
			fx.checkStoreRange(st, sv, IntLit(0), sv.Len, call)
			es := fx.elemSort(sv.Elem)
			name := memName(sv.Elem)
			m := fx.heapGet(st, name, fx.memSort(sv.Elem))
			old := Select(m, sv.Rid, ArraySort(SInt, es))
			row := fx.freshConst("reversed_row", ArraySort(SInt, es))
			q := fx.freshName("q_rv")
			inr := fmt.Sprintf("(and (<= %s %s) (< %s (+ %s %s)))", sv.Off.S, q, q, sv.Off.S, sv.Len.S)
			st.assume(Term{fmt.Sprintf("(forall ((%s Int)) (=> (not %s) (= (select %s %s) (select %s %s))))", q, inr, row.S, q, old.S, q), SBool})
			k := fx.freshName("q_rk")
			st.assume(Term{fmt.Sprintf("(forall ((%s Int)) (=> (and (<= 0 %s) (< %s %s)) (= (select %s (+ %s %s)) (select %s (+ %s (- (- %s 1) %s))))))", k, k, k, sv.Len.S, row.S, sv.Off.S, k, old.S, sv.Off.S, sv.Len.S, k), SBool})
			st.heap[name] = fx.define(name, Store(m, sv.Rid, row))
			return TupleV{}, true
		}
		return nil, false
	case "bytes":
		if callee.Name() == "NewReader" || callee.Name() == "NewBuffer" {
			sv, ok := fx.eval(st, call.Args[0]).(SliceV)
			if !ok {
				return nil, false
			}
			// an opaque reader object that remembers the length of its input
			ref := fx.allocRef(st, "reader")
			fx.declFun("reader_len", []Sort{SInt}, SInt)
			st.assume(Eq(app(SInt, "reader_len", ref), sv.Len))
			t := sig.Results().At(0).Type()
			if p, ok := t.Underlying().(*types.Pointer); ok {
				return PtrV{Ref: ref, Elem: p.Elem()}, true
			}
			return nil, false
		}
	case "encoding/binary":
		switch callee.Name() {
		case "Read":
			// binary.Read(r, order, data): the destination receives arbitrary field values
			// (adversarial input) and the result is an arbitrary error
			fx.eval(st, call.Args[0])
			dst := fx.eval(st, call.Args[2])
			if p, ok := dst.(PtrV); ok {
				v, facts := fx.freshVal("decoded", p.Elem)
				for _, f := range facts {
					st.assume(f)
				}
				fx.storeHeap(st, p.prefix(), p.Ref, p.Elem, v)
			} else if iv, ok := dst.(IfaceV); ok {
				// boxed pointer: find the pointer through the box
				if p2, ok := fx.unboxPtr(st, iv, call.Args[2]); ok {
					v, facts := fx.freshVal("decoded", p2.Elem)
					for _, f := range facts {
						st.assume(f)
					}
					fx.storeHeap(st, p2.prefix(), p2.Ref, p2.Elem, v)
				} else {
					fx.unsupportedf("binary.Read into %s", fx.src(call.Args[2]))
				}
			} else {
				fx.unsupportedf("binary.Read into %s", fx.src(call.Args[2]))
			}
			e, _ := fx.freshVal("read_err", sig.Results().At(0).Type())
			return e, true
		case "Size":
			r := fx.freshConst("binsize", SInt)
			st.assume(Ge(r, IntLit(-1)))
			return r, true
		case "Uint64", "Uint32", "Uint16":
			// methods of littleEndian / bigEndian
			sv, ok := fx.eval(st, call.Args[0]).(SliceV)
			if !ok {
				return nil, false
			}
			w := map[string]int64{"Uint64": 8, "Uint32": 4, "Uint16": 2}[callee.Name()]
			fx.oblige(st, "idx", Ge(sv.Len, IntLit(w)), call, "")
			fn := "bin_" + callee.Name()
			fx.declFun(fn, []Sort{fx.memSort(sv.Elem), SInt, SInt}, SInt)
			m := fx.heapGet(st, memName(sv.Elem), fx.memSort(sv.Elem))
			r := app(SInt, fn, m, sv.Rid, sv.Off)
			st.assume(And(Ge(r, IntLit(0)), Lt(r, Pow2(int(8*w)))))
			return r, true
		case "PutUint64", "PutUint32", "PutUint16":
			sv, ok := fx.eval(st, call.Args[0]).(SliceV)
			if !ok {
				return nil, false
			}
			fx.eval(st, call.Args[1])
			w := map[string]int64{"PutUint64": 8, "PutUint32": 4, "PutUint16": 2}[callee.Name()]
			fx.oblige(st, "idx", Ge(sv.Len, IntLit(w)), call, "")
			fx.checkStoreRange(st, sv, IntLit(0), IntLit(w), call)
			fx.havocRange(st, sv, IntLit(0), IntLit(w))
			return TupleV{}, true
		}
	case "runtime":
		if callee.Name() == "GOMAXPROCS" {
			fx.eval(st, call.Args[0])
			r := fx.freshConst("gomaxprocs", SInt)
			st.assume(And(Ge(r, IntLit(1)), Lt(r, IntLit(1<<20))))
			return r, true
		}
	}
	return nil, false
}

func sign64(n int64) int64 {
	switch {
	case n > 0:
		return 1
	case n < 0:
		return -1
	}
	return 0
}

func (fx *FuncCtx) uninterpretedCall(st *State, name string, sig *types.Signature, call *ast.CallExpr) Val {
	var args []Term
	var sorts []Sort
	for _, a := range call.Args {
		t := fx.evalTerm(st, a)
		args = append(args, t)
		sorts = append(sorts, t.Sort)
	}
	mk := func(i int) Val {
		rt := sig.Results().At(i).Type()
		rs := fx.sortOf(rt)
		fn := name
		if sig.Results().Len() > 1 {
			fn = fmt.Sprintf("%s_%d", name, i)
		}
		fx.declFun(fn, sorts, rs)
		var r Term
		if len(args) == 0 {
			r = Term{fn, rs}
			// nullary declared function: SMT-LIB needs (fn) as constant
			r = Term{fn, rs}
		} else {
			r = app(rs, fn, args...)
		}
		if k, ok := intInfo(rt); ok {
			st.assume(k.rangeOf(r))
		}
		return r
	}
	if sig.Results().Len() == 1 {
		return mk(0)
	}
	var out TupleV
	for i := 0; i < sig.Results().Len(); i++ {
		out = append(out, mk(i))
	}
	return out
}

func (fx *FuncCtx) sortModel(st *State, callee *types.Func, call *ast.CallExpr) (Val, bool) {
	switch callee.Name() {
	case "Float64sAreSorted", "IntsAreSorted":
		sv, ok := fx.eval(st, call.Args[0]).(SliceV)
		if !ok {
			return nil, false
		}
		// result == forall i in [1,n): !less(x[i], x[i-1]) with sort's order
		// (for floats: a < b, or a is NaN and b is not)
		es := fx.elemSort(sv.Elem)
		name := memName(sv.Elem)
		m := fx.heapGet(st, name, fx.memSort(sv.Elem))
		row := Select(m, sv.Rid, ArraySort(SInt, es))
		q := fx.freshName("q_so")
		a := Select(row, Add(sv.Off, Term{q, SInt}), es)
		b := Select(row, Add(sv.Off, Sub(Term{q, SInt}, IntLit(1))), es)
		var less Term
		if es == SInt {
			less = Lt(a, b)
		} else {
			lt := fx.floatOp(tokenLSS, a, b, es, call).(Term)
			less = Or(lt, And(fx.mathIsNaN(a), Not(fx.mathIsNaN(b))))
		}
		res := fx.freshConst("sorted", SBool)
		st.assume(Eq(res, Term{fmt.Sprintf("(forall ((%s Int)) (=> (and (<= 1 %s) (< %s %s)) (not %s)))", q, q, q, sv.Len.S, less.S), SBool}))
		// The order is a strict weak order, so adjacent sortedness is pairwise
		// sortedness (induction on the distance; assumed, part of the model of
		// package sort): res => forall i < j: !less(x[j], x[i]).
		qi, qj := fx.freshName("q_si"), fx.freshName("q_sj")
		ai := Select(row, Add(sv.Off, Term{qi, SInt}), es)
		aj := Select(row, Add(sv.Off, Term{qj, SInt}), es)
		var lessP Term
		if es == SInt {
			lessP = Lt(aj, ai)
		} else {
			lt := fx.floatOp(tokenLSS, aj, ai, es, call).(Term)
			lessP = Or(lt, And(fx.mathIsNaN(aj), Not(fx.mathIsNaN(ai))))
		}
		st.assume(Implies(res, Term{fmt.Sprintf("(forall ((%s Int) (%s Int)) (=> (and (<= 0 %s) (< %s %s) (< %s %s)) (not %s)))", qi, qj, qi, qi, qj, qj, sv.Len.S, lessP.S), SBool}))
		return res, true
	case "Sort":
		// sort.Sort(sort.Reverse(sort.Float64Slice(d))) / sort.IntSlice: d ends up in decreasing order
		rev, ok := unparen(call.Args[0]).(*ast.CallExpr)
		if !ok || len(rev.Args) != 1 {
			return nil, false
		}
		if sel, ok := rev.Fun.(*ast.SelectorExpr); !ok || sel.Sel.Name != "Reverse" {
			return nil, false
		}
		conv, ok := unparen(rev.Args[0]).(*ast.CallExpr)
		if !ok || len(conv.Args) != 1 {
			return nil, false
		}
		if sel, ok := conv.Fun.(*ast.SelectorExpr); !ok || (sel.Sel.Name != "Float64Slice" && sel.Sel.Name != "IntSlice") {
			return nil, false
		}
		sv, ok := fx.eval(st, conv.Args[0]).(SliceV)
		if !ok {
			return nil, false
		}
		fx.checkStoreRange(st, sv, IntLit(0), sv.Len, call)
		es := fx.elemSort(sv.Elem)
		name := memName(sv.Elem)
		m := fx.heapGet(st, name, fx.memSort(sv.Elem))
		old := Select(m, sv.Rid, ArraySort(SInt, es))
		row := fx.freshConst("rsorted_row", ArraySort(SInt, es))
		q := fx.freshName("q_s")
		inr := fmt.Sprintf("(and (<= %s %s) (< %s (+ %s %s)))", sv.Off.S, q, q, sv.Off.S, sv.Len.S)
		st.assume(Term{fmt.Sprintf("(forall ((%s Int)) (=> (not %s) (= (select %s %s) (select %s %s))))", q, inr, row.S, q, old.S, q), SBool})
		q2 := fx.freshName("q_t")
		a := Select(row, Add(sv.Off, Term{q, SInt}), es)
		b := Select(row, Add(sv.Off, Term{q2, SInt}), es)
		var ge Term
		if es == SInt {
			ge = Ge(a, b)
		} else {
			ge = Not(fx.floatOp(tokenLSS, a, b, es, call).(Term))
		}
		st.assume(Term{fmt.Sprintf("(forall ((%s Int) (%s Int)) (=> (and (<= 0 %s) (<= %s %s) (< %s %s)) %s))", q, q2, q, q, q2, q2, sv.Len.S, ge.S), SBool})
		st.heap[name] = fx.define(name, Store(m, sv.Rid, row))
		return TupleV{}, true
	case "Float64s", "Ints":
		sv, ok := fx.eval(st, call.Args[0]).(SliceV)
		if !ok {
			return nil, false
		}
		// permutation is not tracked; result is sorted by the package order
		fx.checkStoreRange(st, sv, IntLit(0), sv.Len, call)
		es := fx.elemSort(sv.Elem)
		name := memName(sv.Elem)
		m := fx.heapGet(st, name, fx.memSort(sv.Elem))
		old := Select(m, sv.Rid, ArraySort(SInt, es))
		row := fx.freshConst("sorted_row", ArraySort(SInt, es))
		q := fx.freshName("q_s")
		inr := fmt.Sprintf("(and (<= %s %s) (< %s (+ %s %s)))", sv.Off.S, q, q, sv.Off.S, sv.Len.S)
		st.assume(Term{fmt.Sprintf("(forall ((%s Int)) (=> (not %s) (= (select %s %s) (select %s %s))))", q, inr, row.S, q, old.S, q), SBool})
		// sortedness: for ints a<=b; for floats: not (b < a) and NaNs first
		q2 := fx.freshName("q_t")
		a := Select(row, Add(sv.Off, Term{q, SInt}), es)
		b := Select(row, Add(sv.Off, Term{q2, SInt}), es)
		var le Term
		if es == SInt {
			le = Le(a, b)
		} else {
			lt := fx.floatOp(tokenLSS, b, a, es, call).(Term)
			le = Not(lt)
		}
		st.assume(Term{fmt.Sprintf("(forall ((%s Int) (%s Int)) (=> (and (<= 0 %s) (<= %s %s) (< %s %s)) %s))", q, q2, q, q, q2, q2, sv.Len.S, le.S), SBool})
		st.heap[name] = fx.define(name, Store(m, sv.Rid, row))
		return TupleV{}, true
	}
	return nil, false
}

// unboxPtr: the pointer stored in an interface value that was boxed from the
// given expression (&x / pointer variable).
func (fx *FuncCtx) unboxPtr(st *State, iv IfaceV, e ast.Expr) (PtrV, bool) {
	t := fx.typeOf(e)
	if p, ok := t.Underlying().(*types.Pointer); ok {
		tname := smtName(types.TypeString(t, func(p *types.Package) string { return p.Name() }))
		fx.declFun("unbox_"+tname, []Sort{SIfc}, SInt)
		return PtrV{Ref: app(SInt, "unbox_"+tname, iv.T), Elem: p.Elem()}, true
	}
	return PtrV{}, false
}
