package main

// Models of standard-library functions (assumption A8 / A3 of DESIGN.md).

import (
	"fmt"
	"go/ast"
	"go/types"
	"strings"
)

func (fx *FuncCtx) fsuffix(s Sort) string {
	if s == SF32 {
		return "32"
	}
	return "64"
}

func (fx *FuncCtx) mathAbs(a Term) Term {
	if fx.ieee {
		return app(a.Sort, "fp.abs", a)
	}
	fn := "fabs" + fx.fsuffix(a.Sort)
	fx.declFun(fn, []Sort{a.Sort}, a.Sort)
	return app(a.Sort, fn, a)
}

func (fx *FuncCtx) mathIsNaN(a Term) Term {
	if fx.ieee {
		return app(SBool, "fp.isNaN", a)
	}
	fn := "fisnan" + fx.fsuffix(a.Sort)
	fx.declFun(fn, []Sort{a.Sort}, SBool)
	return app(SBool, fn, a)
}

func (fx *FuncCtx) mathIsInf(a Term, sign int64) Term {
	if fx.ieee {
		inf := app(SBool, "fp.isInfinite", a)
		switch {
		case sign > 0:
			return And(inf, app(SBool, "fp.isPositive", a))
		case sign < 0:
			return And(inf, app(SBool, "fp.isNegative", a))
		}
		return inf
	}
	fn := fmt.Sprintf("fisinf%s_%d", fx.fsuffix(a.Sort), sign+1)
	fx.declFun(fn, []Sort{a.Sort}, SBool)
	return app(SBool, fn, a)
}

// libraryModel handles calls into packages that are not verified.
func (fx *FuncCtx) libraryModel(st *State, callee *types.Func, qn string, recv Val, call *ast.CallExpr) (Val, bool) {
	if callee.Pkg() == nil {
		return nil, false
	}
	path := callee.Pkg().Path()
	if strings.HasPrefix(path, "gonum.org/v1/gonum") {
		return nil, false
	}
	sig := callee.Type().(*types.Signature)
	argT := func(i int) Term { return fx.evalTerm(st, call.Args[i]) }
	switch path {
	case "math":
		switch callee.Name() {
		case "Abs":
			return fx.mathAbs(argT(0)), true
		case "IsNaN":
			return fx.mathIsNaN(argT(0)), true
		case "IsInf":
			a := argT(0)
			s := argT(1)
			if n, ok := isIntLit(s); ok {
				return fx.mathIsInf(a, sign64(n)), true
			}
			return Ite(Gt(s, IntLit(0)), fx.mathIsInf(a, 1), Ite(Lt(s, IntLit(0)), fx.mathIsInf(a, -1), fx.mathIsInf(a, 0))), true
		case "Inf":
			s := argT(0)
			if fx.ieee {
				return Ite(Ge(s, IntLit(0)), Term{"(_ +oo 11 53)", SF64}, Term{"(_ -oo 11 53)", SF64}), true
			}
			fx.declFun("math_Inf", []Sort{SBool}, SF64)
			return app(SF64, "math_Inf", Ge(s, IntLit(0))), true
		case "NaN":
			if fx.ieee {
				return Term{"(_ NaN 11 53)", SF64}, true
			}
			fx.declare("(declare-const math_NaN F64)")
			return Term{"math_NaN", SF64}, true
		case "Float64bits":
			fx.declFun("f64bits", []Sort{SF64}, SInt)
			fx.declFun("f64frombits", []Sort{SInt}, SF64)
			a := argT(0)
			r := app(SInt, "f64bits", a)
			st.assume(And(Ge(r, IntLit(0)), Lt(r, Pow2(64))))
			return r, true
		case "Float64frombits":
			fx.declFun("f64bits", []Sort{SF64}, SInt)
			fx.declFun("f64frombits", []Sort{SInt}, SF64)
			a := argT(0)
			return app(SF64, "f64frombits", a), true
		}
		// generic: uninterpreted function of the arguments
		return fx.uninterpretedCall(st, "math_"+callee.Name(), sig, call), true
	case "math/cmplx", "math/bits":
		return fx.uninterpretedCall(st, strings.ReplaceAll(path, "/", "_")+"_"+callee.Name(), sig, call), true
	case "fmt":
		switch callee.Name() {
		case "Sprintf", "Sprint", "Errorf", "Sprintln":
			for _, a := range call.Args {
				fx.eval(st, a)
			}
			v, facts := fx.freshVal("fmt_"+callee.Name(), sig.Results().At(0).Type())
			for _, f := range facts {
				st.assume(f)
			}
			return v, true
		}
	case "errors":
		if callee.Name() == "New" {
			v, _ := fx.freshVal("err_new", sig.Results().At(0).Type())
			fx.declare("(declare-const nilIface Iface)")
			st.assume(Not(Eq(v.(IfaceV).T, Term{"nilIface", SIfc})))
			return v, true
		}
	case "sort":
		return fx.sortModel(st, callee, call)
	case "runtime":
		if callee.Name() == "GOMAXPROCS" {
			fx.eval(st, call.Args[0])
			r := fx.freshConst("gomaxprocs", SInt)
			st.assume(And(Ge(r, IntLit(1)), Lt(r, IntLit(1<<20))))
			return r, true
		}
	}
	return nil, false
}

func sign64(n int64) int64 {
	switch {
	case n > 0:
		return 1
	case n < 0:
		return -1
	}
	return 0
}

func (fx *FuncCtx) uninterpretedCall(st *State, name string, sig *types.Signature, call *ast.CallExpr) Val {
	var args []Term
	var sorts []Sort
	for _, a := range call.Args {
		t := fx.evalTerm(st, a)
		args = append(args, t)
		sorts = append(sorts, t.Sort)
	}
	mk := func(i int) Val {
		rt := sig.Results().At(i).Type()
		rs := fx.sortOf(rt)
		fn := name
		if sig.Results().Len() > 1 {
			fn = fmt.Sprintf("%s_%d", name, i)
		}
		fx.declFun(fn, sorts, rs)
		var r Term
		if len(args) == 0 {
			r = Term{fn, rs}
			// nullary declared function: SMT-LIB needs (fn) as constant
			r = Term{fn, rs}
		} else {
			r = app(rs, fn, args...)
		}
		if k, ok := intInfo(rt); ok {
			st.assume(k.rangeOf(r))
		}
		return r
	}
	if sig.Results().Len() == 1 {
		return mk(0)
	}
	var out TupleV
	for i := 0; i < sig.Results().Len(); i++ {
		out = append(out, mk(i))
	}
	return out
}

func (fx *FuncCtx) sortModel(st *State, callee *types.Func, call *ast.CallExpr) (Val, bool) {
	switch callee.Name() {
	case "Float64s", "Ints":
		sv, ok := fx.eval(st, call.Args[0]).(SliceV)
		if !ok {
			return nil, false
		}
		// permutation is not tracked; result is sorted by the package order
		fx.checkStoreRange(st, sv, IntLit(0), sv.Len, call)
		es := fx.elemSort(sv.Elem)
		name := memName(sv.Elem)
		m := fx.heapGet(st, name, fx.memSort(sv.Elem))
		old := Select(m, sv.Rid, ArraySort(SInt, es))
		row := fx.freshConst("sorted_row", ArraySort(SInt, es))
		q := fx.freshName("q_s")
		inr := fmt.Sprintf("(and (<= %s %s) (< %s (+ %s %s)))", sv.Off.S, q, q, sv.Off.S, sv.Len.S)
		st.assume(Term{fmt.Sprintf("(forall ((%s Int)) (=> (not %s) (= (select %s %s) (select %s %s))))", q, inr, row.S, q, old.S, q), SBool})
		// sortedness: for ints a<=b; for floats: not (b < a) and NaNs first
		q2 := fx.freshName("q_t")
		a := Select(row, Add(sv.Off, Term{q, SInt}), es)
		b := Select(row, Add(sv.Off, Term{q2, SInt}), es)
		var le Term
		if es == SInt {
			le = Le(a, b)
		} else {
			lt := fx.floatOp(tokenLSS, b, a, es, call).(Term)
			le = Not(lt)
		}
		st.assume(Term{fmt.Sprintf("(forall ((%s Int) (%s Int)) (=> (and (<= 0 %s) (<= %s %s) (< %s %s)) %s))", q, q2, q, q, q2, q2, sv.Len.S, le.S), SBool})
		st.heap[name] = fx.define(name, Store(m, sv.Rid, row))
		return TupleV{}, true
	}
	return nil, false
}
