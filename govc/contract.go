package main

// Parsing of the //@ contract comments kept in zz_verif_contracts.go files
// (build tag verif) inside the packages of /repo.

import (
	"fmt"
	"go/ast"
	"go/parser"
	"go/token"
	"regexp"
	"strconv"
	"strings"
)

type Family struct {
	Src    string
	Slice  ast.Expr // slice expression (usually an identifier)
	Index  ast.Expr
	Vars   []string
	Lo, Hi []ast.Expr
	Cond   ast.Expr // optional side condition
	Whole  bool     // "writes s[*]": every cell of s[0:len]
}

type Clause struct {
	Src  string
	Expr ast.Expr
	Tag  string // optional [tag]
	Line int
}

type LoopSpec struct {
	Ordinal    int
	Text       string
	Invariants []Clause
	Decreases  *Clause
	After      []Clause
}

type PropSel struct {
	ID    string
	Roles map[string]bool // nil = all
}

type Contract struct {
	Pkg   string // package path
	Func  string // qualified: Recv.Name or Name
	File  string
	Line  int
	Props []PropSel
	Lets  []struct {
		Name string
		Expr ast.Expr
	}
	Valid        *Clause
	Requires     []Clause
	Ensures      []Clause
	PanicEnsures []Clause // must hold whenever an explicit panic is reached
	PanicsIff    bool     // panics iff !valid
	BeforeWr     bool
	PanicsNev    bool
	HasWrites    bool
	Writes       []Family
	HasReads     bool // a `reads` clause was given: every load from caller-visible memory lies in Reads ∪ Writes
	Reads        []Family
	Modifies     []Clause // whole-object frames (struct fields / maps)
	Loops        map[int]*LoopSpec
	Trusted      bool
	Pure         bool
	Floats       string // "", "opaque", "ieee", "real"
	Overflow     string // "", "checked"
	Mode         string
	NoRead       []struct {
		Fam  Family
		When ast.Expr
		Src  string
	}
	Inline      bool
	Options     map[string]string
	Names       []string
	GoFootprint []Family
	GoRequires  []Clause
	Witnesses   []Clause // extra witness terms for frame membership
}

type SpecFunc struct {
	Pkg    string
	Name   string
	Params []string
	PTypes []string
	Ret    string
	Body   ast.Expr
	Rec    bool
	Src    string
	// recursive specs: the cells of each slice parameter the value may depend on
	// (half-open index interval over the scalar parameters; absent = the whole slice)
	// and the termination measure
	FootLo, FootHi map[string]ast.Expr
	Decreases      ast.Expr
}

type Lemma struct {
	Pkg    string
	Name   string
	Props  []PropSel
	Vars   []string // "name type"
	Hyps   []Clause
	Goal   Clause
	Floats string
	Line   int
	File   string
}

type TypeInv struct {
	Pkg  string
	Type string
	Expr Clause
}

type ContractSet struct {
	Funcs  map[string]*Contract // key pkgpath + "." + qualname
	Specs  map[string]*SpecFunc // key pkgpath + "." + name
	Lemmas []*Lemma
	Invs   map[string]*TypeInv
	Errors []string
}

var keywordRe = regexp.MustCompile(`^(?:(?:func|let|valid|requires|ensures|panics|writes|reads|modifies|loop|invariant|decreases|ensures-after|panic-ensures|spec|lemma|pure|trusted|type|noread-before-write|inline|option|hyp|goal|var|witness|go-footprint|go-requires)\b|(?:overflow:|floats:|mode:|props:))`)

// desugarImplies rewrites `a ==> b` (lowest precedence, right associative, at
// any nesting depth) into implies(a, b).
func desugarImplies(s string) string {
	if !strings.Contains(s, "==>") {
		return s
	}
	if i := splitTop(s, "==>"); i >= 0 {
		return "implies(" + desugarImplies(strings.TrimSpace(s[:i])) + ", " + desugarImplies(strings.TrimSpace(s[i+3:])) + ")"
	}
	var b strings.Builder
	for i := 0; i < len(s); {
		c := s[i]
		if c == '(' || c == '[' {
			closeCh := byte(')')
			if c == '[' {
				closeCh = ']'
			}
			depth := 0
			j := i
			for ; j < len(s); j++ {
				if s[j] == '(' || s[j] == '[' {
					depth++
				} else if s[j] == ')' || s[j] == ']' {
					depth--
					if depth == 0 {
						break
					}
				}
			}
			if j >= len(s) {
				b.WriteString(s[i:])
				break
			}
			parts := splitTopAll(s[i+1:j], ",")
			for k := range parts {
				parts[k] = desugarImplies(parts[k])
			}
			b.WriteByte(c)
			b.WriteString(strings.Join(parts, ","))
			b.WriteByte(closeCh)
			i = j + 1
			continue
		}
		b.WriteByte(c)
		i++
	}
	return b.String()
}

func parseExprSrc(src string) (ast.Expr, error) {
	src = desugarImplies(strings.TrimSpace(src))
	e, err := parser.ParseExpr(src)
	if err != nil {
		return nil, fmt.Errorf("%v in %q", err, src)
	}
	return e, nil
}

// splitTop finds the first occurrence of sep at parenthesis depth 0.
func splitTop(s, sep string) int {
	depth := 0
	for i := 0; i < len(s); i++ {
		switch s[i] {
		case '(', '[', '{':
			depth++
		case ')', ']', '}':
			depth--
		case '"':
			for i++; i < len(s) && s[i] != '"'; i++ {
			}
		}
		if depth == 0 && strings.HasPrefix(s[i:], sep) {
			return i
		}
	}
	return -1
}

func splitTopAll(s, sep string) []string {
	var out []string
	for {
		i := splitTop(s, sep)
		if i < 0 {
			out = append(out, s)
			return out
		}
		out = append(out, s[:i])
		s = s[i+len(sep):]
	}
}

func parseProps(s string) []PropSel {
	var out []PropSel
	for _, f := range strings.Fields(s) {
		p := PropSel{}
		if i := strings.IndexByte(f, '('); i >= 0 && strings.HasSuffix(f, ")") {
			p.ID = f[:i]
			p.Roles = map[string]bool{}
			for _, r := range strings.Split(f[i+1:len(f)-1], ",") {
				p.Roles[strings.TrimSpace(r)] = true
			}
		} else {
			p.ID = f
		}
		out = append(out, p)
	}
	return out
}

func parseFamily(src string) (Family, error) {
	f := Family{Src: strings.TrimSpace(src)}
	s := f.Src
	var cond string
	if i := splitTop(s, " if "); i >= 0 {
		cond = s[i+4:]
		s = s[:i]
	}
	var ranges string
	if i := splitTop(s, " for "); i >= 0 {
		ranges = s[i+5:]
		s = s[:i]
	}
	s = strings.TrimSpace(s)
	if strings.HasSuffix(s, "[*]") {
		e, err := parseExprSrc(s[:len(s)-3])
		if err != nil {
			return f, err
		}
		f.Slice = e
		f.Whole = true
		return f, nil
	}
	e, err := parseExprSrc(s)
	if err != nil {
		return f, err
	}
	ix, ok := e.(*ast.IndexExpr)
	if !ok {
		return f, fmt.Errorf("family %q is not an index expression", s)
	}
	f.Slice, f.Index = ix.X, ix.Index
	if ranges != "" {
		for _, r := range splitTopAll(ranges, ",") {
			r = strings.TrimSpace(r)
			i := strings.Index(r, " in ")
			if i < 0 {
				return f, fmt.Errorf("bad range %q", r)
			}
			name := strings.TrimSpace(r[:i])
			j := splitTop(r[i+4:], "..")
			if j < 0 {
				return f, fmt.Errorf("bad range %q", r)
			}
			lo, err := parseExprSrc(r[i+4 : i+4+j])
			if err != nil {
				return f, err
			}
			hi, err := parseExprSrc(r[i+4+j+2:])
			if err != nil {
				return f, err
			}
			f.Vars = append(f.Vars, name)
			f.Lo = append(f.Lo, lo)
			f.Hi = append(f.Hi, hi)
		}
	}
	if cond != "" {
		c, err := parseExprSrc(cond)
		if err != nil {
			return f, err
		}
		f.Cond = c
	}
	return f, nil
}

type rawLine struct {
	text string
	line int
}

// ParseContractFile extracts the //@ lines of one file.
func (cs *ContractSet) ParseContractFile(fset *token.FileSet, pkgPath string, file *ast.File) {
	fname := fset.Position(file.Pos()).Filename
	var lines []rawLine
	for _, cg := range file.Comments {
		for _, c := range cg.List {
			t := c.Text
			if !strings.HasPrefix(t, "//@") {
				continue
			}
			lines = append(lines, rawLine{strings.TrimRight(t[3:], " \t"), fset.Position(c.Pos()).Line})
		}
	}
	// join continuation lines
	var joined []rawLine
	for _, l := range lines {
		tt := strings.TrimSpace(l.text)
		if tt == "" || strings.HasPrefix(tt, "--") {
			continue
		}
		if keywordRe.MatchString(tt) || len(joined) == 0 {
			joined = append(joined, rawLine{tt, l.line})
		} else {
			joined[len(joined)-1].text += " " + tt
		}
	}
	var cur *Contract
	var curLoop *LoopSpec
	var curLemma *Lemma
	errf := func(l rawLine, format string, a ...interface{}) {
		cs.Errors = append(cs.Errors, fmt.Sprintf("%s:%d: %s", fname, l.line, fmt.Sprintf(format, a...)))
	}
	mk := func(l rawLine, src string) (Clause, bool) {
		c := Clause{Src: strings.TrimSpace(src), Line: l.line}
		if strings.HasPrefix(c.Src, "[") {
			if i := strings.IndexByte(c.Src, ']'); i > 0 {
				c.Tag = c.Src[1:i]
				c.Src = strings.TrimSpace(c.Src[i+1:])
			}
		}
		e, err := parseExprSrc(c.Src)
		if err != nil {
			errf(l, "%v", err)
			return c, false
		}
		c.Expr = e
		return c, true
	}
	for _, l := range joined {
		kw := keywordRe.FindString(l.text)
		rest := strings.TrimSpace(l.text[len(kw):])
		if kw != "func" && kw != "spec" && kw != "lemma" && kw != "type" && kw != "pure" && kw != "trusted" && cur == nil && curLemma == nil {
			errf(l, "clause outside a func block: %s", l.text)
			continue
		}
		switch kw {
		case "func", "trusted", "pure":
			curLemma = nil
			name := rest
			props := ""
			if i := strings.Index(rest, "props:"); i >= 0 {
				name = strings.TrimSpace(rest[:i])
				props = rest[i+6:]
			}
			names := strings.Fields(strings.NewReplacer("(", "", ")", "", "*", "", ",", " ").Replace(name))
			if len(names) == 0 {
				errf(l, "func without a name")
				continue
			}
			cur = &Contract{Pkg: pkgPath, Func: names[0], File: fname, Line: l.line, Loops: map[int]*LoopSpec{}, Props: parseProps(props), Options: map[string]string{}}
			cur.Trusted = kw == "trusted"
			cur.Pure = kw == "pure"
			cur.Names = names
			curLoop = nil
			for _, nm := range names {
				key := pkgPath + "." + nm
				if _, dup := cs.Funcs[key]; dup {
					errf(l, "duplicate contract for %s", key)
				}
				cs.Funcs[key] = cur
			}
		case "props:":
			if curLemma != nil {
				curLemma.Props = parseProps(rest)
			} else {
				cur.Props = parseProps(rest)
			}
		case "let":
			i := strings.Index(rest, "=")
			if i < 0 {
				errf(l, "bad let")
				continue
			}
			e, err := parseExprSrc(rest[i+1:])
			if err != nil {
				errf(l, "%v", err)
				continue
			}
			cur.Lets = append(cur.Lets, struct {
				Name string
				Expr ast.Expr
			}{strings.TrimSpace(rest[:i]), e})
		case "valid":
			if c, ok := mk(l, rest); ok {
				cur.Valid = &c
			}
		case "requires":
			if c, ok := mk(l, rest); ok {
				cur.Requires = append(cur.Requires, c)
			}
		case "ensures":
			if c, ok := mk(l, rest); ok {
				cur.Ensures = append(cur.Ensures, c)
			}
		case "panic-ensures":
			if c, ok := mk(l, rest); ok {
				cur.PanicEnsures = append(cur.PanicEnsures, c)
			}
		case "panics":
			r := strings.ReplaceAll(rest, " ", "")
			switch {
			case strings.HasPrefix(r, "iff!valid"):
				cur.PanicsIff = true
				cur.BeforeWr = strings.Contains(r, "before-writes")
			case r == "never":
				cur.PanicsNev = true
			default:
				errf(l, "unsupported panics clause %q", rest)
			}
		case "writes":
			cur.HasWrites = true
			if rest == "nothing" {
				continue
			}
			for _, fs := range splitTopAll(rest, ";") {
				f, err := parseFamily(fs)
				if err != nil {
					errf(l, "%v", err)
					continue
				}
				cur.Writes = append(cur.Writes, f)
			}
		case "reads":
			cur.HasReads = true
			if rest == "nothing" {
				continue
			}
			for _, fs := range splitTopAll(rest, ";") {
				f, err := parseFamily(fs)
				if err != nil {
					errf(l, "%v", err)
					continue
				}
				cur.Reads = append(cur.Reads, f)
			}
		case "modifies":
			for _, ms := range splitTopAll(rest, ",") {
				if c, ok := mk(l, ms); ok {
					cur.Modifies = append(cur.Modifies, c)
				}
			}
		case "noread-before-write":
			i := splitTop(rest, " when ")
			if i < 0 {
				errf(l, "noread-before-write needs 'when'")
				continue
			}
			f, err := parseFamily(rest[:i])
			if err != nil {
				errf(l, "%v", err)
				continue
			}
			w, err := parseExprSrc(rest[i+6:])
			if err != nil {
				errf(l, "%v", err)
				continue
			}
			cur.NoRead = append(cur.NoRead, struct {
				Fam  Family
				When ast.Expr
				Src  string
			}{f, w, rest})
		case "loop":
			// loop N ["text"]: [invariant e]
			i := strings.IndexByte(rest, ':')
			head := rest
			tail := ""
			if q := strings.IndexByte(rest, '"'); q >= 0 && q < i {
				q2 := strings.IndexByte(rest[q+1:], '"')
				if q2 >= 0 {
					i = q + 1 + q2 + 1 + strings.IndexByte(rest[q+1+q2+1:], ':')
				}
			}
			if i >= 0 {
				head, tail = rest[:i], strings.TrimSpace(rest[i+1:])
			}
			hf := strings.Fields(head)
			n, err := strconv.Atoi(hf[0])
			if err != nil {
				errf(l, "bad loop ordinal")
				continue
			}
			curLoop = cur.Loops[n]
			if curLoop == nil {
				curLoop = &LoopSpec{Ordinal: n}
				cur.Loops[n] = curLoop
			}
			if q := strings.IndexByte(head, '"'); q >= 0 {
				curLoop.Text = strings.Trim(strings.TrimSpace(head[q:]), `"`)
			}
			if tail != "" {
				kw2 := keywordRe.FindString(tail)
				r2 := strings.TrimSpace(tail[len(kw2):])
				switch kw2 {
				case "invariant":
					if c, ok := mk(l, r2); ok {
						curLoop.Invariants = append(curLoop.Invariants, c)
					}
				case "decreases":
					if c, ok := mk(l, r2); ok {
						curLoop.Decreases = &c
					}
				case "ensures-after":
					if c, ok := mk(l, r2); ok {
						curLoop.After = append(curLoop.After, c)
					}
				default:
					errf(l, "bad loop clause %q", tail)
				}
			}
		case "invariant":
			if curLoop == nil {
				errf(l, "invariant outside loop")
				continue
			}
			if c, ok := mk(l, rest); ok {
				curLoop.Invariants = append(curLoop.Invariants, c)
			}
		case "decreases":
			if curLoop == nil {
				errf(l, "decreases outside loop")
				continue
			}
			if c, ok := mk(l, rest); ok {
				curLoop.Decreases = &c
			}
		case "ensures-after":
			if curLoop == nil {
				errf(l, "ensures-after outside loop")
				continue
			}
			if c, ok := mk(l, rest); ok {
				curLoop.After = append(curLoop.After, c)
			}
		case "go-footprint":
			for _, fs := range splitTopAll(rest, ";") {
				f, err := parseFamily(fs)
				if err != nil {
					errf(l, "%v", err)
					continue
				}
				cur.GoFootprint = append(cur.GoFootprint, f)
			}
		case "go-requires":
			if c, ok := mk(l, rest); ok {
				cur.GoRequires = append(cur.GoRequires, c)
			}
		case "witness":
			for _, ws := range splitTopAll(rest, ",") {
				if c, ok := mk(l, ws); ok {
					cur.Witnesses = append(cur.Witnesses, c)
				}
			}
		case "overflow:":
			cur.Overflow = rest
		case "floats:":
			if curLemma != nil {
				curLemma.Floats = rest
			} else {
				cur.Floats = rest
			}
		case "mode:":
			cur.Mode = rest
		case "inline":
			cur.Inline = true
		case "option":
			kv := strings.SplitN(rest, "=", 2)
			if len(kv) == 2 {
				cur.Options[strings.TrimSpace(kv[0])] = strings.TrimSpace(kv[1])
			} else {
				cur.Options[strings.TrimSpace(rest)] = "true"
			}
		case "spec":
			// spec [rec] name(p1 T1, p2 T2) R = expr
			sp := &SpecFunc{Pkg: pkgPath, Src: rest}
			r := rest
			if strings.HasPrefix(r, "rec ") {
				sp.Rec = true
				r = strings.TrimSpace(r[4:])
			}
			po := strings.IndexByte(r, '(')
			pc := matchParen(r, po)
			eq := strings.Index(r[pc:], "=")
			if po < 0 || pc < 0 || eq < 0 {
				errf(l, "bad spec")
				continue
			}
			sp.Name = strings.TrimSpace(r[:po])
			for _, p := range strings.Split(r[po+1:pc], ",") {
				pf := strings.Fields(p)
				if len(pf) == 0 {
					continue
				}
				sp.Params = append(sp.Params, pf[0])
				if len(pf) > 1 {
					sp.PTypes = append(sp.PTypes, pf[1])
				} else {
					sp.PTypes = append(sp.PTypes, "int")
				}
			}
			sp.Ret = strings.TrimSpace(r[pc+1 : pc+eq])
			if sp.Rec {
				// RET [reads s[lo..hi], t[lo..hi]] [decreases expr]
				hdr := sp.Ret
				if i := strings.Index(hdr, " decreases "); i >= 0 {
					d, err := parseExprSrc(hdr[i+11:])
					if err != nil {
						errf(l, "%v", err)
						continue
					}
					sp.Decreases = d
					hdr = strings.TrimSpace(hdr[:i])
				}
				if i := strings.Index(hdr, " reads "); i >= 0 {
					sp.FootLo, sp.FootHi = map[string]ast.Expr{}, map[string]ast.Expr{}
					for _, fs := range splitTopAll(hdr[i+7:], ",") {
						fs = strings.TrimSpace(fs)
						bo := strings.IndexByte(fs, '[')
						if bo < 0 || !strings.HasSuffix(fs, "]") {
							errf(l, "bad footprint %q", fs)
							continue
						}
						inner := fs[bo+1 : len(fs)-1]
						dd := splitTop(inner, "..")
						if dd < 0 {
							errf(l, "bad footprint %q", fs)
							continue
						}
						lo, err1 := parseExprSrc(inner[:dd])
						hi, err2 := parseExprSrc(inner[dd+2:])
						if err1 != nil || err2 != nil {
							errf(l, "bad footprint %q", fs)
							continue
						}
						sp.FootLo[strings.TrimSpace(fs[:bo])], sp.FootHi[strings.TrimSpace(fs[:bo])] = lo, hi
					}
					hdr = strings.TrimSpace(hdr[:i])
				}
				sp.Ret = hdr
				if sp.Decreases == nil {
					errf(l, "spec rec %s needs a decreases measure", sp.Name)
					continue
				}
			}
			e, err := parseExprSrc(r[pc+eq+1:])
			if err != nil {
				errf(l, "%v", err)
				continue
			}
			sp.Body = e
			cs.Specs[pkgPath+"."+sp.Name] = sp
			cur, curLemma = nil, nil
		case "lemma":
			cur = nil
			name := rest
			props := ""
			if i := strings.Index(rest, "props:"); i >= 0 {
				name = strings.TrimSpace(rest[:i])
				props = rest[i+6:]
			}
			curLemma = &Lemma{Pkg: pkgPath, Name: strings.TrimSuffix(strings.TrimSpace(name), ":"), Props: parseProps(props), Line: l.line, File: fname}
			cs.Lemmas = append(cs.Lemmas, curLemma)
		case "var":
			if curLemma == nil {
				errf(l, "var outside lemma")
				continue
			}
			for _, v := range strings.Split(rest, ",") {
				curLemma.Vars = append(curLemma.Vars, strings.TrimSpace(v))
			}
		case "hyp":
			if curLemma == nil {
				errf(l, "hyp outside lemma")
				continue
			}
			if c, ok := mk(l, rest); ok {
				curLemma.Hyps = append(curLemma.Hyps, c)
			}
		case "goal":
			if curLemma == nil {
				errf(l, "goal outside lemma")
				continue
			}
			if c, ok := mk(l, rest); ok {
				curLemma.Goal = c
			}
		case "type":
			// type T invariant expr
			f := strings.Fields(rest)
			if len(f) < 3 || f[1] != "invariant" {
				errf(l, "bad type invariant")
				continue
			}
			i := strings.Index(rest, "invariant")
			if c, ok := mk(l, rest[i+9:]); ok {
				cs.Invs[pkgPath+"."+f[0]] = &TypeInv{Pkg: pkgPath, Type: f[0], Expr: c}
			}
		default:
			errf(l, "unknown clause %q", l.text)
		}
	}
}

func matchParen(s string, open int) int {
	if open < 0 {
		return -1
	}
	d := 0
	for i := open; i < len(s); i++ {
		switch s[i] {
		case '(':
			d++
		case ')':
			d--
			if d == 0 {
				return i
			}
		}
	}
	return -1
}

// closeFrames: a contract without a `writes` clause means `writes nothing` (callers assume that no
// slice cell changes, so the body has to be checked against it; leaving the body unchecked was a
// soundness hole reported by a contract-writing agent).
func (cs *ContractSet) closeFrames() {
	for _, c := range cs.Funcs {
		if !c.Pure {
			c.HasWrites = true
		}
	}
}

func NewContractSet() *ContractSet {
	return &ContractSet{Funcs: map[string]*Contract{}, Specs: map[string]*SpecFunc{}, Invs: map[string]*TypeInv{}}
}

// role of an obligation kind (used by props: C01(frame,value) selectors)
func kindRole(kind string) string {
	switch {
	case strings.HasPrefix(kind, "go."):
		return "go"
	case kind == "frame" || kind == "call.frame" || kind == "rframe" || kind == "call.rframe" || kind == "noread" || kind == "modifies":
		return "frame"
	case kind == "post" || kind == "post.real" || kind == "after.real" || kind == "panic.post" || strings.HasPrefix(kind, "inv.") || kind == "lemma" || kind == "after" || kind == "dec":
		return "value"
	default:
		return "safety"
	}
}

func propsFor(sel []PropSel, kind string) []string {
	var out []string
	role := kindRole(kind)
	for _, p := range sel {
		if p.Roles == nil || p.Roles[role] || p.Roles[kind] {
			out = append(out, p.ID)
		}
	}
	return out
}
