package main

// Replay of a solver counterexample on the real code: a generated in-package
// test calls the function with the model's argument values and observes whether
// the failure the obligation predicts actually happens. The test is injected
// with `go test -overlay` (nothing is written to /repo).

import (
	"context"
	"encoding/json"
	"fmt"
	"go/ast"
	"go/types"
	"os"
	"os/exec"
	"path/filepath"
	"regexp"
	"sort"
	"strconv"
	"strings"
	"time"
)

var modelIntRe = regexp.MustCompile(`\(define-fun\s+([^\s()]+)\s+\(\)\s+Int\s+(\(-\s*\d+\)|-?\d+)\)`)
var modelBoolRe = regexp.MustCompile(`\(define-fun\s+([^\s()]+)\s+\(\)\s+Bool\s+(true|false)\)`)

func parseModel(m string) (map[string]int64, map[string]bool, bool) {
	ints := map[string]int64{}
	bools := map[string]bool{}
	m = strings.ReplaceAll(m, "\n", " ")
	huge := false
	for _, g := range modelIntRe.FindAllStringSubmatch(m, -1) {
		v := strings.NewReplacer("(", "", ")", "", " ", "").Replace(g[2])
		n, err := strconv.ParseInt(v, 10, 64)
		if err != nil {
			huge = true
			continue
		}
		ints[g[1]] = n
	}
	for _, g := range modelBoolRe.FindAllStringSubmatch(m, -1) {
		bools[g[1]] = g[2] == "true"
	}
	return ints, bools, huge
}

// smallModel asks the solver for a model of the failed query with modest
// magnitudes (so that the replay can allocate the slices).
func smallModel(query string, names []string) string {
	var b strings.Builder
	b.WriteString(query)
	for _, n := range names {
		if !strings.Contains(query, "(declare-const "+n+" Int)") {
			continue
		}
		fmt.Fprintf(&b, "(assert (and (< %s 2000) (> %s (- 2000))))\n", n, n)
	}
	for _, bound := range []int{1} {
		_ = bound
		file := filepath.Join(scratch(), fmt.Sprintf("replay-%d.smt2", time.Now().UnixNano()))
		os.WriteFile(file, []byte(b.String()+"(check-sat)\n(get-model)\n"), 0o644)
		for _, sp := range []solverSpec{solvers[0], solvers[2]} {
			st, out, _ := runOne(context.Background(), sp, file, 10000)
			if st == "sat" {
				os.Remove(file)
				return out
			}
		}
		os.Remove(file)
	}
	return ""
}

type replayResult struct {
	Confirmed bool              `json:"confirmed"`
	Reason    string            `json:"reason,omitempty"`
	Inputs    map[string]string `json:"inputs,omitempty"`
	TestFile  string            `json:"test_file,omitempty"`
	Command   string            `json:"command,omitempty"`
	Output    string            `json:"output,omitempty"`
}

// tryReplay builds and runs a replay test for a failed obligation.
func (e *Engine) tryReplay(o *Obl, key string, outDir string, idx int) *replayResult {
	con := e.cs.Funcs[key]
	if con == nil || o.query == "" {
		return nil
	}
	pi := e.pkgs[con.Pkg]
	if pi == nil {
		return nil
	}
	fname := strings.TrimPrefix(key, con.Pkg+".")
	fd := pi.funcs[fname]
	if fd == nil || fd.Body == nil {
		return nil
	}
	expect := ""
	switch o.Kind {
	case "idx", "slice", "nil", "div", "make", "assert", "shift", "call.pre":
		expect = "fault"
	case "panic.must":
		expect = "noexplicit"
	case "panic.none", "panic.never":
		expect = "explicit"
	case "panic.order":
		expect = "writebeforepanic"
	default:
		return &replayResult{Reason: "no replay strategy for obligation kind " + o.Kind}
	}
	info := pi.pkg.TypesInfo
	sig := info.Defs[fd.Name].Type().(*types.Signature)
	// names whose magnitudes should be small
	var names []string
	for i := 0; i < sig.Params().Len(); i++ {
		p := sig.Params().At(i)
		switch p.Type().Underlying().(type) {
		case *types.Slice:
			names = append(names, p.Name()+"$len", p.Name()+"$cap", p.Name()+"$off")
		default:
			names = append(names, p.Name())
		}
	}
	model := smallModel(o.query, names)
	if model == "" {
		model = o.Model
	}
	if model == "" {
		return &replayResult{Reason: "no solver model (answers: unknown / timeout)"}
	}
	ints, bools, _ := parseModel(model)
	qual := func(p *types.Package) string {
		if p == pi.pkg.Types {
			return ""
		}
		return p.Name()
	}
	imports := map[string]string{} // path -> name
	noteImports := func(t types.Type) {
		var walk func(t types.Type)
		walk = func(t types.Type) {
			switch x := t.(type) {
			case *types.Named:
				if x.Obj().Pkg() != nil && x.Obj().Pkg() != pi.pkg.Types {
					imports[x.Obj().Pkg().Path()] = x.Obj().Pkg().Name()
				}
			case *types.Slice:
				walk(x.Elem())
			case *types.Pointer:
				walk(x.Elem())
			case *types.Array:
				walk(x.Elem())
			}
		}
		walk(t)
	}
	var decls, snaps, cmps, argv []string
	inputs := map[string]string{}
	const maxElems = 1 << 20
	for i := 0; i < sig.Params().Len(); i++ {
		p := sig.Params().At(i)
		name := p.Name()
		if name == "" || name == "_" {
			name = fmt.Sprintf("arg%d", i)
		}
		ts := types.TypeString(p.Type(), qual)
		noteImports(p.Type())
		switch u := p.Type().Underlying().(type) {
		case *types.Basic:
			switch {
			case u.Info()&types.IsInteger != 0:
				v := ints[p.Name()]
				decls = append(decls, fmt.Sprintf("\tvar %s %s = %s(%d)", name, ts, ts, v))
				if u.Info()&types.IsUnsigned != 0 && v < 0 {
					return &replayResult{Reason: "model value out of range for " + name}
				}
				inputs[name] = fmt.Sprint(v)
			case u.Info()&types.IsFloat != 0:
				decls = append(decls, fmt.Sprintf("\tvar %s %s = 1.5", name, ts))
				inputs[name] = "1.5 (floats are uninterpreted in the model)"
			case u.Info()&types.IsComplex != 0:
				decls = append(decls, fmt.Sprintf("\tvar %s %s = complex(1.5, 0.5)", name, ts))
				inputs[name] = "1.5+0.5i"
			case u.Info()&types.IsBoolean != 0:
				decls = append(decls, fmt.Sprintf("\tvar %s %s = %v", name, ts, bools[p.Name()]))
				inputs[name] = fmt.Sprint(bools[p.Name()])
			case u.Info()&types.IsString != 0:
				decls = append(decls, fmt.Sprintf("\tvar %s %s", name, ts))
			default:
				return &replayResult{Reason: "parameter type not replayable: " + ts}
			}
		case *types.Slice:
			eb, ok := u.Elem().Underlying().(*types.Basic)
			if !ok || eb.Info()&types.IsNumeric == 0 {
				return &replayResult{Reason: "parameter type not replayable: " + ts}
			}
			ln, cp := ints[p.Name()+"$len"], ints[p.Name()+"$cap"]
			if ln < 0 || cp < ln || cp > maxElems {
				return &replayResult{Reason: fmt.Sprintf("model asks for a slice %s with len %d cap %d", name, ln, cp)}
			}
			ets := types.TypeString(u.Elem(), qual)
			if rid, ok := ints[p.Name()+"$rid"]; ok && rid == 0 {
				decls = append(decls, fmt.Sprintf("\tvar %s %s", name, ts))
				inputs[name] = "nil"
			} else {
				fill := fmt.Sprintf("%s(k%%7 + 1)", ets)
				if eb.Info()&types.IsComplex != 0 {
					fill = fmt.Sprintf("%s(complex(float64(k%%7+1), 0.5))", ets)
				}
				decls = append(decls, fmt.Sprintf("\t%s := make(%s, %d, %d)\n\tfor k := range %s[:cap(%s)] { %s[:cap(%s)][k] = %s }", name, ts, ln, cp, name, name, name, name, fill))
				inputs[name] = fmt.Sprintf("len %d cap %d", ln, cp)
				snaps = append(snaps, fmt.Sprintf("\tsnap_%s := append(%s(nil), %s[:cap(%s)]...)", name, ts, name, name))
				cmps = append(cmps, fmt.Sprintf("\tfor k, v := range %s[:cap(%s)] { if v != snap_%s[k] && !(v != v && snap_%s[k] != snap_%s[k]) { changed = true } }", name, name, name, name, name))
			}
		case *types.Struct:
			decls = append(decls, fmt.Sprintf("\tvar %s %s", name, ts))
		default:
			return &replayResult{Reason: "parameter type not replayable: " + ts}
		}
		argv = append(argv, name)
	}
	callee := fd.Name.Name
	if fd.Recv != nil && len(fd.Recv.List) > 0 {
		rt := info.TypeOf(fd.Recv.List[0].Type)
		if _, isPtr := rt.Underlying().(*types.Pointer); isPtr {
			return &replayResult{Reason: "pointer receiver not replayable"}
		}
		if st, ok := rt.Underlying().(*types.Struct); !ok || st.NumFields() != 0 {
			return &replayResult{Reason: "receiver with state not replayable"}
		}
		callee = types.TypeString(rt, qual) + "{}." + callee
	}
	var imps []string
	paths := make([]string, 0, len(imports))
	for p := range imports {
		paths = append(paths, p)
	}
	sort.Strings(paths)
	for _, p := range paths {
		imps = append(imps, fmt.Sprintf("\t%s %q", imports[p], p))
	}
	var src strings.Builder
	fmt.Fprintf(&src, "package %s\n\nimport (\n\t\"runtime\"\n\t\"testing\"\n%s\n)\n\n", pi.pkg.Types.Name(), strings.Join(imps, "\n"))
	fmt.Fprintf(&src, "// Generated by govc: replay of a counterexample for obligation\n//   %s\n// expectation: %s\nfunc TestVerifReplay(t *testing.T) {\n", o.Name, expect)
	src.WriteString(strings.Join(decls, "\n") + "\n")
	src.WriteString(strings.Join(snaps, "\n") + "\n")
	src.WriteString("\tvar pv interface{}\n\tpanicked := false\n\tfunc() {\n\t\tdefer func() {\n\t\t\tif r := recover(); r != nil {\n\t\t\t\tpv, panicked = r, true\n\t\t\t}\n\t\t}()\n")
	fmt.Fprintf(&src, "\t\t%s(%s)\n\t}()\n", callee, strings.Join(argv, ", "))
	src.WriteString("\tchanged := false\n" + strings.Join(cmps, "\n") + "\n\t_ = changed\n")
	src.WriteString("\t_, isRuntime := pv.(runtime.Error)\n")
	switch expect {
	case "fault":
		src.WriteString("\tif panicked && isRuntime {\n\t\tt.Fatalf(\"REPLAY-CONFIRMED: runtime fault instead of a documented panic or a normal return: %v\", pv)\n\t}\n")
	case "noexplicit":
		src.WriteString("\tif !panicked {\n\t\tt.Fatalf(\"REPLAY-CONFIRMED: arguments violating the documented contract were accepted without a panic\")\n\t}\n\tif isRuntime {\n\t\tt.Fatalf(\"REPLAY-CONFIRMED: arguments violating the documented contract caused a runtime fault: %v\", pv)\n\t}\n")
	case "explicit":
		src.WriteString("\tif panicked && !isRuntime {\n\t\tt.Fatalf(\"REPLAY-CONFIRMED: explicit panic for arguments satisfying the documented contract: %v\", pv)\n\t}\n")
	case "writebeforepanic":
		src.WriteString("\tif panicked && changed {\n\t\tt.Fatalf(\"REPLAY-CONFIRMED: an operand was modified before the panic: %v\", pv)\n\t}\n")
	}
	src.WriteString("}\n")
	testFile := filepath.Join(outDir, "replays", fmt.Sprintf("violation_%03d_replay_test.go", idx))
	os.WriteFile(testFile, []byte(src.String()), 0o644)
	pkgDir := filepath.Join(e.repo, strings.TrimPrefix(con.Pkg, "gonum.org/v1/gonum/"))
	ov := map[string]map[string]string{"Replace": {filepath.Join(pkgDir, "zz_verif_replay_test.go"): testFile}}
	ovb, _ := json.Marshal(ov)
	ovFile := filepath.Join(outDir, "replays", fmt.Sprintf("violation_%03d_overlay.json", idx))
	os.WriteFile(ovFile, ovb, 0o644)
	tags := strings.TrimPrefix(e.tags, "verif,")
	if tags == "verif" {
		tags = ""
	}
	args := []string{"test", "-overlay", ovFile, "-vet=off", "-count=1", "-timeout", "60s", "-run", "^TestVerifReplay$"}
	if tags != "" {
		args = append(args, "-tags", tags)
	}
	args = append(args, ".")
	ctx, cancel := context.WithTimeout(context.Background(), 180*time.Second)
	defer cancel()
	cmd := exec.CommandContext(ctx, "go", args...)
	cmd.Dir = pkgDir
	cmd.Env = append(os.Environ(), "GOFLAGS=-mod=mod", "GOPROXY=off", "GOSUMDB=off", "GOTOOLCHAIN=local")
	out, _ := cmd.CombinedOutput()
	res := &replayResult{Inputs: inputs, TestFile: testFile, Command: "cd " + pkgDir + " && go " + strings.Join(args, " ")}
	os := string(out)
	if len(os) > 1500 {
		os = os[:1500]
	}
	res.Output = os
	res.Confirmed = strings.Contains(string(out), "REPLAY-CONFIRMED")
	if !res.Confirmed {
		res.Reason = "the model's arguments did not reproduce the failure on the real code (model values of memory contents and aliasing are not replayed)"
	}
	return res
}

var _ = ast.Inspect
