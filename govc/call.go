package main

// Calls: conversions, builtins, library models, contract application, inlining.

import (
	"fmt"
	"go/ast"
	"go/token"
	"go/types"
	"strings"

	"golang.org/x/tools/go/types/typeutil"
)

func (fx *FuncCtx) evalCall(st *State, call *ast.CallExpr) Val {
	// conversion?
	if tv, ok := fx.info.Types[call.Fun]; ok && tv.IsType() {
		return fx.convert(st, call.Args[0], tv.Type, call)
	}
	// builtin?
	if id, ok := unparen(call.Fun).(*ast.Ident); ok {
		if _, isB := fx.info.ObjectOf(id).(*types.Builtin); isB {
			return fx.evalBuiltin(st, id.Name, call)
		}
	}
	callee := typeutil.StaticCallee(fx.info, call)
	if callee != nil {
		return fx.callStatic(st, callee, call)
	}
	// interface method call or function value
	if sel, ok := unparen(call.Fun).(*ast.SelectorExpr); ok {
		if s := fx.info.Selections[sel]; s != nil && s.Kind() == types.MethodVal {
			if _, isIface := s.Recv().Underlying().(*types.Interface); isIface {
				return fx.callInterface(st, sel, s, call)
			}
		}
	}
	fv := fx.eval(st, call.Fun)
	if f, ok := fv.(FuncV); ok {
		if lit, ok := f.Lit.(*ast.FuncLit); ok {
			return fx.callClosure(st, lit, call)
		}
		return fx.callUnknownFunc(st, f, call)
	}
	fx.unsupportedf("call %s", fx.src(call))
	return nil
}

func unparen(e ast.Expr) ast.Expr {
	for {
		p, ok := e.(*ast.ParenExpr)
		if !ok {
			return e
		}
		e = p.X
	}
}

func (fx *FuncCtx) convert(st *State, arg ast.Expr, to types.Type, node ast.Node) Val {
	from := fx.typeOf(arg)
	v := fx.eval(st, arg)
	return fx.convertVal(st, v, from, to, node)
}

func (fx *FuncCtx) convertVal(st *State, v Val, from, to types.Type, node ast.Node) Val {
	if _, ok := v.(NilV); ok {
		return fx.zeroVal(to)
	}
	if tk, ok := intInfo(to); ok {
		if fk, ok := intInfo(from); ok {
			t := v.(Term)
			return fx.intConv(st, t, fk, tk, node)
		}
		if fs, ok := isFloat(from); ok {
			t := v.(Term)
			if fx.real {
				// truncation toward zero (the range of the integer type is assumed, as in the other modes)
				r := fx.define("f2i", Ite(app(SBool, ">=", t, Term{"0.0", fs}), app(SInt, "to_int", t), app(SInt, "-", app(SInt, "to_int", app(fs, "-", t)))))
				if st != nil {
					st.assume(tk.rangeOf(r))
				}
				return r
			}
			fn := fmt.Sprintf("f2i_%s", fs)
			fx.declFun(fn, []Sort{fs}, SInt)
			r := app(SInt, fn, t)
			if st != nil {
				st.assume(tk.rangeOf(r))
			}
			return r
		}
	}
	if ts, ok := isFloat(to); ok {
		if _, ok := intInfo(from); ok {
			return fx.intToFloat(v.(Term), ts)
		}
		if fs, ok := isFloat(from); ok {
			if fs == ts || fx.real {
				return v
			}
			fn := fmt.Sprintf("fconv_%s_%s", fs, ts)
			fx.declFun(fn, []Sort{fs}, ts)
			return app(ts, fn, v.(Term))
		}
	}
	if ts, ok := isComplex(to); ok {
		if fs, ok := isComplex(from); ok {
			if fs == ts {
				return v
			}
			fn := fmt.Sprintf("cconv_%s_%s", fs, ts)
			fx.declFun(fn, []Sort{fs}, ts)
			return app(ts, fn, v.(Term))
		}
	}
	// string <-> []byte
	if b, ok := to.Underlying().(*types.Basic); ok && b.Info()&types.IsString != 0 {
		if _, ok := v.(StrV); ok {
			return v
		}
		if sv, ok := v.(SliceV); ok {
			fx.declFun("str_of_bytes", []Sort{SInt, SInt, SInt, SInt}, SStr)
			ver := fx.freshConst("memver", SInt)
			return StrV{ID: app(SStr, "str_of_bytes", sv.Rid, sv.Off, sv.Len, ver), Len: sv.Len}
		}
		if t, ok := v.(Term); ok && t.Sort == SInt {
			fx.declFun("str_of_rune", []Sort{SInt}, SStr)
			id := app(SStr, "str_of_rune", t)
			ln := fx.freshConst("runelen", SInt)
			st.assume(And(Ge(ln, IntLit(1)), Le(ln, IntLit(4))))
			return StrV{ID: id, Len: ln}
		}
	}
	if sl, ok := to.Underlying().(*types.Slice); ok {
		if sv, ok := v.(StrV); ok {
			// []byte(s): fresh region whose bytes are those of s
			rid := fx.allocRegion(st)
			out := SliceV{Rid: rid, Off: IntLit(0), Len: sv.Len, Cap: sv.Len, Elem: sl.Elem()}
			fx.declFun("strat", []Sort{SStr, SInt}, SInt)
			name := memName(sl.Elem())
			m := fx.heapGet(st, name, fx.memSort(sl.Elem()))
			row := fx.freshConst("bytes", ArraySort(SInt, SInt))
			q := fx.freshName("q_b")
			st.assume(Term{fmt.Sprintf("(forall ((%s Int)) (=> (and (<= 0 %s) (< %s %s)) (and (= (select %s %s) (strat %s %s)) (<= 0 (select %s %s)) (< (select %s %s) 256))))", q, q, q, sv.Len.S, row.S, q, sv.ID.S, q, row.S, q, row.S, q), SBool})
			st.heap[name] = fx.define(name, Store(m, rid, row))
			return out
		}
		if _, ok := v.(SliceV); ok {
			return v
		}
	}
	// identical underlying types (named <-> unnamed, struct conversions)
	if types.Identical(from.Underlying(), to.Underlying()) || types.ConvertibleTo(from, to) {
		switch x := v.(type) {
		case StructV:
			return StructV{T: to, Fields: x.Fields}
		case Term, SliceV, PtrV, MapV, ArrayV, StrV, FuncV:
			if _, toIface := to.Underlying().(*types.Interface); toIface {
				if _, fromIface := from.Underlying().(*types.Interface); !fromIface {
					return fx.box(st, v, from)
				}
			}
			if p, ok := x.(PtrV); ok {
				if tp, ok := to.Underlying().(*types.Pointer); ok {
					_ = tp
					return PtrV{Ref: p.Ref, Elem: p.Elem}
				}
			}
			return v
		case IfaceV:
			return v
		}
	}
	if _, toIface := to.Underlying().(*types.Interface); toIface {
		return fx.box(st, v, from)
	}
	fx.unsupportedf("conversion %s -> %s", from, to)
	return nil
}

func (fx *FuncCtx) intConv(st *State, t Term, fk, tk intKind, node ast.Node) Term {
	if fk == tk {
		return t
	}
	if tk.signed {
		if fk.signed {
			if tk.bits >= fk.bits {
				return t
			}
			// narrowing: wrap
			m := app(SInt, "mod", t, Pow2(tk.bits))
			return Ite(Ge(m, Pow2(tk.bits-1)), Sub(m, Pow2(tk.bits)), m)
		}
		// unsigned -> signed
		if tk.bits > fk.bits {
			return t
		}
		m := t
		if tk.bits < fk.bits {
			m = app(SInt, "mod", t, Pow2(tk.bits))
		}
		return fx.define("s", Ite(Ge(m, Pow2(tk.bits-1)), Sub(m, Pow2(tk.bits)), m))
	}
	// to unsigned
	if !fk.signed && tk.bits >= fk.bits {
		return t
	}
	if n, ok := isIntLit(t); ok && n >= 0 && (tk.bits == 64 || n < int64(1)<<uint(tk.bits)) {
		return t
	}
	if fk.signed && st != nil && !fx.ovf {
		// A2: signed source values are in range of their type
		st.assume(fk.rangeOf(t))
	}
	return fx.define("u", app(SInt, "mod", t, Pow2(tk.bits)))
}

func (fx *FuncCtx) intToFloat(t Term, s Sort) Term {
	if n, ok := isIntLit(t); ok {
		return fx.floatConst(float64(n), s)
	}
	if fx.real {
		return app(s, "to_real", t)
	}
	fn := "i2f_" + string(s)
	fx.declFun(fn, []Sort{SInt}, s)
	return app(s, fn, t)
}

func (fx *FuncCtx) allocRegion(st *State) Term {
	r := fx.freshConst("alloc", SInt)
	st.assume(Lt(r, IntLit(0)))
	// distinct from earlier allocations on this path
	for _, prev := range fx.allocsOf(st) {
		st.assume(Not(Eq(r, prev)))
	}
	st.allocs = append(st.allocs[:len(st.allocs):len(st.allocs)], r)
	return r
}

func (fx *FuncCtx) allocsOf(st *State) []Term { return st.allocs }

func (fx *FuncCtx) allocRef(st *State, base string) Term {
	r := fx.freshConst("new_"+base, SInt)
	st.assume(Eq(r, st.allocTop))
	st.allocTop = fx.define("alloctop", Add(r, IntLit(1)))
	return r
}

// refFact: a reference read from the heap (or received) denotes an allocated object or nil.
func (fx *FuncCtx) refFact(st *State, v Term) {
	if st == nil || fx.inQuant > 0 || st.allocTop.S == "" {
		return
	}
	st.assume(And(Ge(v, IntLit(0)), Lt(v, st.allocTop)))
}

func isAllocTerm(t Term) bool {
	return strings.HasPrefix(t.S, "alloc")
}

func (fx *FuncCtx) evalBuiltin(st *State, name string, call *ast.CallExpr) Val {
	switch name {
	case "len", "cap":
		v := fx.eval(st, call.Args[0])
		switch x := v.(type) {
		case SliceV:
			if name == "len" {
				return x.Len
			}
			return x.Cap
		case StrV:
			return x.Len
		case ArrayV:
			return IntLit(x.T.Len())
		case MapV:
			return fx.mapLen(st, x)
		case PtrV:
			if at, ok := x.Elem.Underlying().(*types.Array); ok {
				return IntLit(at.Len())
			}
		}
		fx.unsupportedf("%s of %s", name, valString(v))
	case "min", "max":
		t := fx.typeOf(call.Args[0])
		a := fx.evalTerm(st, call.Args[0])
		for _, e := range call.Args[1:] {
			b := fx.evalTerm(st, e)
			if _, ok := intInfo(t); ok {
				if name == "min" {
					a = app(SInt, "imin", a, b)
				} else {
					a = app(SInt, "imax", a, b)
				}
			} else if s, ok := isFloat(t); ok {
				fn := "f" + name + "_" + string(s)
				fx.declFun(fn, []Sort{s, s}, s)
				a = app(s, fn, a, b)
			} else {
				fx.unsupportedf("min/max of %s", t)
			}
		}
		return a
	case "make":
		t := fx.typeOf(call)
		switch u := t.Underlying().(type) {
		case *types.Slice:
			n := fx.evalTerm(st, call.Args[1])
			c := n
			if len(call.Args) > 2 {
				c = fx.evalTerm(st, call.Args[2])
				fx.oblige(st, "make", And(Ge(n, IntLit(0)), Le(n, c)), call, "")
			} else {
				fx.oblige(st, "make", Ge(n, IntLit(0)), call, "")
			}
			if lim, ok := fx.allocLimit(st); ok {
				fx.oblige(st, "alloc", Le(c, lim), call, "")
			}
			rid := fx.allocRegion(st)
			sv := SliceV{Rid: rid, Off: IntLit(0), Len: n, Cap: c, Elem: u.Elem()}
			fx.zeroRegion(st, sv)
			return sv
		case *types.Map:
			ref := fx.allocRef(st, "map")
			mv := MapV{Ref: ref, T: u}
			fx.mapInitEmpty(st, mv)
			return mv
		case *types.Chan:
			for _, a := range call.Args[1:] {
				fx.eval(st, a)
			}
			return fx.allocRef(st, "chan")
		}
		fx.unsupportedf("make(%s)", t)
	case "new":
		t := fx.typeOf(call).Underlying().(*types.Pointer).Elem()
		ref := fx.allocRef(st, "obj")
		fx.storeHeap(st, heapPrefix(t), ref, t, fx.zeroVal(t))
		return PtrV{Ref: ref, Elem: t}
	case "copy":
		dst, ok1 := fx.eval(st, call.Args[0]).(SliceV)
		sv := fx.eval(st, call.Args[1])
		if !ok1 {
			fx.unsupportedf("copy destination")
		}
		var n Term
		switch s := sv.(type) {
		case SliceV:
			n = app(SInt, "imin", dst.Len, s.Len)
			fx.noteReadRange(st, s, IntLit(0), n, call)
			fx.copyCells(st, dst, s, n, call)
		case StrV:
			n = app(SInt, "imin", dst.Len, s.Len)
			fx.checkStoreRange(st, dst, IntLit(0), n, call)
			fx.havocRange(st, dst, IntLit(0), n)
		default:
			fx.unsupportedf("copy source")
		}
		return fx.define("ncopied", n)
	case "append":
		return fx.evalAppend(st, call)
	case "delete":
		mv, ok := fx.eval(st, call.Args[0]).(MapV)
		if !ok {
			fx.unsupportedf("delete on non-map")
		}
		fx.mapDelete(st, mv, fx.eval(st, call.Args[1]), call)
		return TupleV{}
	case "real", "imag":
		t := fx.typeOf(call.Args[0])
		s, _ := isComplex(t)
		fs := SF64
		if s == SC64 {
			fs = SF32
		}
		fn := name + "_" + string(s)
		fx.declFun(fn, []Sort{s}, fs)
		return app(fs, fn, fx.evalTerm(st, call.Args[0]))
	case "complex":
		t := fx.typeOf(call)
		s, _ := isComplex(t)
		fs := SF64
		if s == SC64 {
			fs = SF32
		}
		fn := "mkc_" + string(s)
		fx.declFun(fn, []Sort{fs, fs}, s)
		return app(s, fn, fx.evalTerm(st, call.Args[0]), fx.evalTerm(st, call.Args[1]))
	case "panic":
		// panic in expression position (e.g. inside a closure body executed inline)
		fx.exits = append(fx.exits, &Exit{kind: "panic", st: st.clone(), node: call, pexpr: call.Args[0]})
		st.assume(tFalse)
		return TupleV{}
	case "print", "println":
		return TupleV{}
	}
	fx.unsupportedf("builtin %s", name)
	return nil
}

func (fx *FuncCtx) allocLimit(st *State) (Term, bool) {
	return Term{}, false
}

// zeroRegion: a freshly made slice holds zero values.
func (fx *FuncCtx) zeroRegion(st *State, sv SliceV) {
	if _, ok := sv.Elem.Underlying().(*types.Struct); ok {
		return
	}
	es := scalarSort(sv.Elem)
	if es == "" {
		return
	}
	name := memName(sv.Elem)
	m := fx.heapGet(st, name, fx.memSort(sv.Elem))
	z, ok := unwrapScalar(fx.zeroVal(sv.Elem))
	if !ok {
		return
	}
	row := fx.constArray(es, z)
	st.heap[name] = fx.define(name, Store(m, sv.Rid, row))
}

func (fx *FuncCtx) evalAppend(st *State, call *ast.CallExpr) Val {
	base, ok := fx.eval(st, call.Args[0]).(SliceV)
	if !ok {
		fx.unsupportedf("append base")
	}
	if call.Ellipsis.IsValid() {
		fx.unsupportedf("append with ...")
	}
	var vals []Val
	for _, a := range call.Args[1:] {
		vals = append(vals, fx.eval(st, a))
	}
	k := IntLit(int64(len(vals)))
	newLen := Add(base.Len, k)
	// Result: either in place (len+k <= cap) or a fresh region. We model the
	// result as a fresh region unless the slice is locally allocated, in which
	// case growth in place is indistinguishable for the caller.
	rid := fx.allocRegion(st)
	newCap := fx.freshConst("appcap", SInt)
	st.assume(Ge(newCap, newLen))
	out := SliceV{Rid: rid, Off: IntLit(0), Len: newLen, Cap: newCap, Elem: base.Elem}
	if !isAllocTerm(base.Rid) {
		// in-place growth would write base[len:len+k], cells beyond len: visible only through other slices of the same array.
		fx.notes = append(fx.notes, "append on non-local slice modelled as reallocation at "+shortPos(fx.pos(call)))
	}
	if _, isStruct := base.Elem.Underlying().(*types.Struct); !isStruct {
		es := fx.elemSort(base.Elem)
		name := memName(base.Elem)
		m := fx.heapGet(st, name, fx.memSort(base.Elem))
		row := fx.freshConst("approw", ArraySort(SInt, es))
		q := fx.freshName("q_a")
		old := Select(m, base.Rid, ArraySort(SInt, es))
		st.assume(Term{fmt.Sprintf("(forall ((%s Int)) (=> (and (<= 0 %s) (< %s %s)) (= (select %s %s) (select %s (+ %s %s)))))", q, q, q, base.Len.S, row.S, q, old.S, base.Off.S, q), SBool})
		for i, v := range vals {
			t, ok := unwrapScalar(v)
			if !ok {
				fx.unsupportedf("append of non-scalar")
			}
			row = Store(row, Add(base.Len, IntLit(int64(i))), t)
		}
		st.heap[name] = fx.define(name, Store(m, rid, row))
	} else {
		for i, v := range vals {
			fx.storeHeap(st, "S_"+heapPrefix(base.Elem), fx.cellRef(out, Add(base.Len, IntLit(int64(i)))), base.Elem, v)
		}
		fx.notes = append(fx.notes, "append on slice of structs: old elements not tracked")
	}
	return out
}

// copyCells models copy(dst, src[:n]) as memmove.
func (fx *FuncCtx) copyCells(st *State, dst, src SliceV, n Term, node ast.Node) {
	fx.checkStoreRange(st, dst, IntLit(0), n, node)
	es := fx.elemSort(dst.Elem)
	name := memName(dst.Elem)
	m := fx.heapGet(st, name, fx.memSort(dst.Elem))
	oldDst := Select(m, dst.Rid, ArraySort(SInt, es))
	oldSrc := Select(m, src.Rid, ArraySort(SInt, es))
	row := fx.freshConst("cprow", ArraySort(SInt, es))
	q := fx.freshName("q_c")
	inr := fmt.Sprintf("(and (<= %s %s) (< %s (+ %s %s)))", dst.Off.S, q, q, dst.Off.S, n.S)
	st.assume(Term{fmt.Sprintf("(forall ((%s Int)) (= (select %s %s) (ite %s (select %s (+ %s (- %s %s))) (select %s %s))))",
		q, row.S, q, inr, oldSrc.S, src.Off.S, q, dst.Off.S, oldDst.S, q), SBool})
	st.heap[name] = fx.define(name, Store(m, dst.Rid, row))
}

func (fx *FuncCtx) havocRange(st *State, dst SliceV, lo, n Term) {
	es := fx.elemSort(dst.Elem)
	name := memName(dst.Elem)
	m := fx.heapGet(st, name, fx.memSort(dst.Elem))
	oldDst := Select(m, dst.Rid, ArraySort(SInt, es))
	row := fx.freshConst("hvrow", ArraySort(SInt, es))
	q := fx.freshName("q_h")
	inr := fmt.Sprintf("(and (<= (+ %s %s) %s) (< %s (+ %s %s %s)))", dst.Off.S, lo.S, q, q, dst.Off.S, lo.S, n.S)
	st.assume(Term{fmt.Sprintf("(forall ((%s Int)) (=> (not %s) (= (select %s %s) (select %s %s))))", q, inr, row.S, q, oldDst.S, q), SBool})
	st.heap[name] = fx.define(name, Store(m, dst.Rid, row))
}

// ---------------------------------------------------------------------------

func funcQName(f *types.Func) string {
	sig := f.Type().(*types.Signature)
	name := f.Name()
	if r := sig.Recv(); r != nil {
		t := r.Type()
		if p, ok := t.(*types.Pointer); ok {
			t = p.Elem()
		}
		if n, ok := t.(*types.Named); ok {
			name = n.Obj().Name() + "." + name
		}
	}
	if f.Pkg() == nil {
		return name
	}
	return f.Pkg().Path() + "." + name
}

func (fx *FuncCtx) callStatic(st *State, callee *types.Func, call *ast.CallExpr) Val {
	qn := funcQName(callee)
	// receiver
	var recv Val
	var recvT types.Type
	sig := callee.Type().(*types.Signature)
	if sig.Recv() != nil {
		sel := unparen(call.Fun).(*ast.SelectorExpr)
		s := fx.info.Selections[sel]
		recvT = sig.Recv().Type()
		if s != nil && s.Kind() == types.MethodVal {
			recv = fx.evalReceiver(st, sel, s, recvT)
		} else {
			fx.unsupportedf("method expression %s", fx.src(call))
		}
	}
	if callee.Pkg() != nil && callee.Pkg().Path() == "sync" {
		// WaitGroup / Mutex / Once.Do are scheduling devices: fork-join semantics (A7)
		switch callee.Name() {
		case "Add", "Done", "Wait", "Lock", "Unlock", "RLock", "RUnlock":
			for _, a := range call.Args {
				fx.eval(st, a)
			}
			if callee.Name() == "Wait" && fx.goDepth == 0 {
				fx.outstanding = nil
			}
			if (callee.Name() == "Lock" || callee.Name() == "RLock") && fx.goDepth > 0 {
				fx.unsupportedf("mutex inside a goroutine: lock order is a schedule (result may depend on it)")
			}
			return TupleV{}
		}
		fx.unsupportedf("sync.%s", callee.Name())
	}
	// library models first
	if v, ok := fx.libraryModel(st, callee, qn, recv, call); ok {
		return v
	}
	args := fx.evalArgs(st, sig, call)
	if con := fx.eng.contractFor(qn); con != nil && !con.Inline {
		return fx.applyContract(st, con, callee, recv, recvT, args, call)
	}
	if fd, pkg := fx.eng.funcDecl(callee); fd != nil && fd.Body != nil {
		return fx.inlineCall(st, callee, fd, pkg, recv, args, call)
	}
	fx.unsupportedf("call to %s: no contract and no body", qn)
	return nil
}

func (fx *FuncCtx) evalReceiver(st *State, sel *ast.SelectorExpr, s *types.Selection, recvT types.Type) Val {
	v := fx.eval(st, sel.X)
	xt := fx.typeOf(sel.X)
	// follow embedded fields
	path := s.Index()
	if len(path) > 1 {
		v = fx.selectPath(st, v, xt, path[:len(path)-1], sel)
		xt = fx.fieldType(xt, path[:len(path)-1])
	}
	_, wantPtr := recvT.Underlying().(*types.Pointer)
	_, havePtr := v.(PtrV)
	if _, isPtrT := xt.Underlying().(*types.Pointer); isPtrT {
		havePtr = true
	}
	switch {
	case wantPtr && !havePtr:
		// addressable value used with pointer receiver: &x
		return fx.addressOf(st, sel.X, v, xt)
	case !wantPtr && havePtr:
		p := v.(PtrV)
		fx.oblige(st, "nil", Not(Eq(p.Ref, IntLit(0))), sel, "")
		return fx.loadHeap(st, heapPrefix(p.Elem), p.Ref, p.Elem)
	}
	return v
}

func (fx *FuncCtx) evalArgs(st *State, sig *types.Signature, call *ast.CallExpr) []Val {
	var args []Val
	np := sig.Params().Len()
	if len(call.Args) == 1 && np > 1 {
		tv := fx.evalMulti(st, call.Args[0], np)
		return tv
	}
	for i, a := range call.Args {
		v := fx.eval(st, a)
		var pt types.Type
		if sig.Variadic() && i >= np-1 {
			if call.Ellipsis.IsValid() {
				pt = sig.Params().At(np - 1).Type()
			} else {
				pt = sig.Params().At(np - 1).Type().(*types.Slice).Elem()
			}
		} else if i < np {
			pt = sig.Params().At(i).Type()
		}
		args = append(args, fx.coerce(st, v, fx.info.Types[a].Type, pt))
	}
	if sig.Variadic() && !call.Ellipsis.IsValid() {
		// pack the variadic tail into a fresh slice
		fixed := args[:np-1]
		tail := args[np-1:]
		et := sig.Params().At(np - 1).Type().(*types.Slice).Elem()
		rid := fx.allocRegion(st)
		sv := SliceV{Rid: rid, Off: IntLit(0), Len: IntLit(int64(len(tail))), Cap: IntLit(int64(len(tail))), Elem: et}
		if len(tail) == 0 {
			sv = fx.zeroVal(sig.Params().At(np - 1).Type()).(SliceV)
		}
		for i, v := range tail {
			fx.memWrite(st, sv, IntLit(int64(i)), v)
		}
		args = append(append([]Val{}, fixed...), sv)
	}
	return args
}

// applyContract: modular call.
func (fx *FuncCtx) applyContract(st *State, con *Contract, callee *types.Func, recv Val, recvT types.Type, args []Val, call *ast.CallExpr) Val {
	sig := callee.Type().(*types.Signature)
	env := fx.calleeEnv(st, con, callee, recv, recvT, args)
	pre := st.clone()
	env.old = pre
	env.cur = st
	// lets
	for _, l := range con.Lets {
		env.binds[l.Name] = fx.specEval(env, l.Expr)
	}
	what := fx.src(call.Fun)
	if con.Valid != nil {
		v := fx.specBool(env, con.Valid.Expr)
		if fx.con != nil && fx.con.Options["delegate-panics"] == "true" && con.PanicsIff {
			// the callee's documented panic is this function's panic
			inv := st.clone()
			inv.branch(Not(v))
			fx.exits = append(fx.exits, &Exit{kind: "panic", st: inv, node: call, pexpr: call.Fun})
			st.branch(v)
		} else {
			fx.oblige(st, "call.pre", v, call, "valid("+what+")")
			st.assume(v)
		}
	}
	for _, r := range con.Requires {
		if r.Tag != "" && !fx.tagActive(r.Tag) {
			continue
		}
		g := fx.specBool(env, r.Expr)
		fx.oblige(st, "call.pre", g, call, what+": "+r.Src)
		st.assume(g)
	}
	// frame
	fams := fx.instFamilies(env, con.Writes)
	if fx.readsChecked() {
		if !con.HasReads {
			fx.unsupportedf("reads clause: callee %s has no reads clause", what)
		}
		for _, f := range fx.instFamilies(env, con.Reads) {
			fx.checkCallReadFrame(st, f, call, what)
		}
		for _, f := range fams {
			fx.checkCallReadFrame(st, f, call, what)
		}
	}
	for _, f := range fams {
		fx.checkCallFrame(st, f, call, what)
		fx.havocFamily(st, f)
	}
	for _, m := range con.Modifies {
		fx.applyModifies(st, env, m, call)
	}
	// the callee may allocate: the frontier moves by an unknown amount
	preTop := st.allocTop
	if preTop.S != "" {
		st.allocTop = fx.freshConst("alloctop_call", SInt)
		st.assume(Ge(st.allocTop, preTop))
	}
	env.preTop = preTop
	// results
	var results []Val
	var rs []sval
	for i := 0; i < sig.Results().Len(); i++ {
		r := sig.Results().At(i)
		v, facts := fx.freshValAny("ret_"+callee.Name(), r.Type())
		for _, f := range facts {
			st.assume(f)
		}
		fx.refFacts(st, v)
		results = append(results, v)
		rs = append(rs, sval{v, r.Type()})
		env.resNames = append(env.resNames, r.Name())
	}
	env.results = rs
	env.cur = st
	for _, e := range con.Ensures {
		if e.Tag != "" && !fx.tagActive(e.Tag) {
			continue
		}
		st.assume(fx.specBool(env, e.Expr))
	}
	switch len(results) {
	case 0:
		return TupleV{}
	case 1:
		return results[0]
	}
	return TupleV(results)
}

func (fx *FuncCtx) tagActive(tag string) bool {
	switch tag {
	case "real":
		return fx.real
	case "realx":
		return fx.real && thoroughTier
	case "thorough":
		return thoroughTier && !fx.real
	case "noasm":
		return strings.Contains(fx.cfg, "noasm")
	}
	return true
}

func (fx *FuncCtx) calleeEnv(st *State, con *Contract, callee *types.Func, recv Val, recvT types.Type, args []Val) *specEnv {
	sig := callee.Type().(*types.Signature)
	env := &specEnv{fx: fx, cur: st, old: st, binds: map[string]sval{}, names: map[string]sval{}, isCallee: true, pkg: callee.Pkg(), pkgPath: con.Pkg}
	if sig.Recv() != nil && sig.Recv().Name() != "" && sig.Recv().Name() != "_" {
		env.names[sig.Recv().Name()] = sval{recv, recvT}
	}
	if sig.Recv() != nil {
		env.names["recv"] = sval{recv, recvT}
	}
	for i := 0; i < sig.Params().Len() && i < len(args); i++ {
		p := sig.Params().At(i)
		env.names[p.Name()] = sval{args[i], p.Type()}
	}
	env.oldNm = env.names
	return env
}

// inlineCall executes the callee body in place.
func (fx *FuncCtx) inlineCall(st *State, callee *types.Func, fd *ast.FuncDecl, pkg *pkgInfo, recv Val, args []Val, call *ast.CallExpr) Val {
	for _, a := range fx.inlineStack {
		if a == callee {
			fx.unsupportedf("recursive call to %s without contract", callee.Name())
		}
	}
	fx.inlineStack = append(fx.inlineStack, callee)
	defer func() { fx.inlineStack = fx.inlineStack[:len(fx.inlineStack)-1] }()
	return fx.inlineBody(st, &inlineTarget{name: callee.Name(), sig: callee.Type().(*types.Signature), recv: fd.Recv, ftype: fd.Type, body: fd.Body, pkg: pkg, decl: fd}, recv, args)
}

type inlineTarget struct {
	name  string
	sig   *types.Signature
	recv  *ast.FieldList
	ftype *ast.FuncType
	body  *ast.BlockStmt
	pkg   *pkgInfo      // nil: closure of the current function
	decl  *ast.FuncDecl // nil for closures
}

func (fx *FuncCtx) inlineBody(st *State, tg *inlineTarget, recv Val, args []Val) Val {
	if fx.inlineDepth >= 5 {
		fx.unsupportedf("inline depth exceeded at %s", tg.name)
	}
	sig := tg.sig
	savedInfo, savedDecl, savedResults, savedExits := fx.info, fx.decl, fx.results, fx.exits
	savedNodeOrd, savedLoopOrd, savedCon, savedCur, savedPkg := fx.nodeOrd, fx.loopOrd, fx.con, fx.cur, fx.pkg
	savedDefers := fx.defers
	outerCon := fx.con
	info := fx.info
	if tg.pkg != nil {
		fx.info, fx.decl, fx.cur, fx.pkg = tg.pkg.pkg.TypesInfo, tg.decl, tg.pkg, tg.pkg.pkg
		info = fx.info
		fx.nodeOrd, fx.loopOrd = nil, nil
		fx.con = &Contract{Loops: map[int]*LoopSpec{}, Options: map[string]string{}}
		if outerCon != nil {
			fx.con.Props = outerCon.Props
			// stores of the inlined callee are still checked against the caller's frame
			fx.con.Writes, fx.con.HasWrites = outerCon.Writes, outerCon.HasWrites
			fx.con.Reads, fx.con.HasReads = outerCon.Reads, outerCon.HasReads
			fx.con.Witnesses = nil
		}
	}
	fx.exits = nil
	fx.defers = nil
	fx.inlineDepth++
	fx.freshN["inl"]++
	defer func() {
		fx.info, fx.decl, fx.results, fx.nodeOrd, fx.loopOrd, fx.con, fx.cur, fx.pkg = savedInfo, savedDecl, savedResults, savedNodeOrd, savedLoopOrd, savedCon, savedCur, savedPkg
		fx.defers = savedDefers
		fx.inlineDepth--
	}()

	body := st.clone()
	outerVars := body.vars
	body.vars = map[types.Object]Val{}
	for k, v := range outerVars {
		body.vars[k] = v
	}
	if sig.Recv() != nil && tg.recv != nil && len(tg.recv.List) > 0 && len(tg.recv.List[0].Names) > 0 {
		if obj := info.Defs[tg.recv.List[0].Names[0]]; obj != nil {
			fx.bind(body, obj, recv)
		}
	}
	i := 0
	for _, f := range tg.ftype.Params.List {
		for _, n := range f.Names {
			if obj := info.Defs[n]; obj != nil && i < len(args) {
				fx.bind(body, obj, args[i])
			}
			i++
		}
		if len(f.Names) == 0 {
			i++
		}
	}
	fx.results = nil
	namedResults := false
	if tg.ftype.Results != nil {
		for _, f := range tg.ftype.Results.List {
			for _, n := range f.Names {
				if obj, ok := info.Defs[n].(*types.Var); ok {
					fx.results = append(fx.results, obj)
					fx.bind(body, obj, fx.zeroVal(obj.Type()))
					namedResults = true
				}
			}
		}
	}
	if fx.results == nil && sig.Results().Len() > 0 {
		for j := 0; j < sig.Results().Len(); j++ {
			fx.results = append(fx.results, sig.Results().At(j))
		}
	}
	fl := fx.execBlock(body, tg.body.List)
	if fl.normal != nil {
		if sig.Results().Len() == 0 || namedResults {
			fx.execReturn(fl.normal, &ast.ReturnStmt{Return: tg.body.Rbrace})
		}
	}
	inner := fx.exits
	fx.exits = savedExits
	var rets []*Exit
	for _, e := range inner {
		if e.kind == "panic" {
			fx.exits = append(fx.exits, e)
		} else {
			rets = append(rets, e)
		}
	}
	nres := sig.Results().Len()
	if len(rets) == 0 {
		st.assume(tFalse)
		var zs []Val
		for j := 0; j < nres; j++ {
			zs = append(zs, fx.zeroVal(sig.Results().At(j).Type()))
		}
		switch len(zs) {
		case 0:
			return TupleV{}
		case 1:
			return zs[0]
		}
		return TupleV(zs)
	}
	var states []*State
	for _, e := range rets {
		states = append(states, e.st)
	}
	base := st.clone()
	var merged *State
	var results []Val
	if len(states) == 1 {
		merged = states[0]
		results = rets[0].results
	} else {
		pseudo := make([]*types.Var, nres)
		for j := 0; j < nres; j++ {
			pseudo[j] = types.NewVar(token.NoPos, nil, fmt.Sprintf("ret%d", j), sig.Results().At(j).Type())
			base.vars[pseudo[j]] = rets[0].results[j]
		}
		for k, e := range rets {
			for j := 0; j < nres; j++ {
				states[k].vars[pseudo[j]] = e.results[j]
			}
		}
		merged = fx.mergeStates(base, states)
		for j := 0; j < nres; j++ {
			results = append(results, merged.vars[pseudo[j]])
		}
	}
	nv := map[types.Object]Val{}
	for k := range outerVars {
		if v, ok := merged.vars[k]; ok {
			nv[k] = v
		} else {
			nv[k] = outerVars[k]
		}
	}
	st.vars = nv
	st.heap = merged.heap
	st.hyps = merged.hyps
	st.written = merged.written
	st.allocs = merged.allocs
	st.refs = merged.refs
	switch len(results) {
	case 0:
		return TupleV{}
	case 1:
		return results[0]
	}
	return TupleV(results)
}

func (fx *FuncCtx) callClosure(st *State, lit *ast.FuncLit, call *ast.CallExpr) Val {
	sig, ok := fx.info.Types[lit].Type.(*types.Signature)
	if !ok {
		fx.unsupportedf("closure without signature")
	}
	var args []Val
	if call != nil {
		args = fx.evalArgs(st, sig, call)
	}
	return fx.inlineBody(st, &inlineTarget{name: "closure", sig: sig, ftype: lit.Type, body: lit.Body}, nil, args)
}

func (fx *FuncCtx) callUnknownFunc(st *State, f FuncV, call *ast.CallExpr) Val {
	fx.unsupportedf("call through function value %s", fx.src(call))
	return nil
}

// execGo: fork-join model (assumption A7). The goroutine body is executed in
// place; its effects are those of some sequential order. Footprint
// disjointness is a separate lemma in the contract file.
func (fx *FuncCtx) execGo(st *State, x *ast.GoStmt) Flow {
	lit, ok := unparen(x.Call.Fun).(*ast.FuncLit)
	if !ok {
		fx.unsupportedf("go statement without function literal")
	}
	if fx.con == nil || fx.inlineDepth != 0 || len(fx.con.GoFootprint) == 0 {
		// Without a declared footprint nothing is known about what runs concurrently
		// with the rest of the function: the fork-join argument (A7) does not apply.
		fx.unsupportedf("go statement without a go-footprint clause in the contract (%s)", shortPos(fx.pos(x)))
	}
	if fx.con != nil && fx.inlineDepth == 0 && (len(fx.con.GoFootprint) > 0 || len(fx.con.GoRequires) > 0) {
		// bind the goroutine's parameters to the actual arguments for the footprint clauses
		sig := fx.info.Types[lit].Type.(*types.Signature)
		args := fx.evalArgs(st.clone(), sig, x.Call)
		env := &specEnv{fx: fx, cur: st, old: fx.entry, binds: map[string]sval{}, pos: x.Pos()}
		k := 0
		for _, f := range lit.Type.Params.List {
			for _, n := range f.Names {
				if k < len(args) {
					env.binds[n.Name] = sval{args[k], sig.Params().At(k).Type()}
				}
				k++
			}
		}
		for _, r := range fx.con.GoRequires {
			fx.oblige(st, "go.pre", fx.specBool(env, r.Expr), x, "go-requires "+r.Src)
		}
		if len(fx.con.GoFootprint) > 0 {
			fp := fx.instFamilies(env, fx.con.GoFootprint)
			// the footprint lies inside the function's own write frame
			for _, f := range fp {
				fx.checkCallFrame(st.clone(), f, x, "goroutine footprint")
			}
			saved := fx.famOverride
			fx.famOverride = fp
			defer func() { fx.famOverride = saved }()
			// until the join, the parent must stay out of the footprints of running goroutines
			fx.outstanding = append(fx.outstanding, fp...)
		}
	}
	fx.goDepth++
	fx.callClosure(st, lit, x.Call)
	fx.goDepth--
	if fx.isDead(st) {
		return Flow{}
	}
	return Flow{normal: st}
}

func (fx *FuncCtx) execDefer(st *State, x *ast.DeferStmt) Flow {
	if len(x.Call.Args) != 0 {
		fx.unsupportedf("defer with arguments")
	}
	fx.defers = append(fx.defers, x)
	return Flow{normal: st}
}

// runDefers executes the deferred calls of the current frame on an exit state.
func (fx *FuncCtx) runDefers(st *State) {
	ds := fx.defers
	fx.defers = nil // deferred calls may not defer further in the supported subset
	for i := len(ds) - 1; i >= 0; i-- {
		fx.evalCall(st, ds[i].Call)
	}
	fx.defers = ds
}

// constArray: an array holding z everywhere. For interpreted element sorts the
// SMT-LIB constant array is used; for uninterpreted sorts (opaque floats) cvc5
// rejects a non-value element, so a named array with a defining axiom is used.
func (fx *FuncCtx) constArray(es Sort, z Term) Term {
	as := ArraySort(SInt, es)
	if es == SInt || es == SBool || (fx.ieee || fx.real) && (es == SF64 || es == SF32) {
		return Term{fmt.Sprintf("((as const %s) %s)", as, z.S), as}
	}
	name := "constarr_" + smtName(string(es)) + "_" + smtName(z.S)
	if !fx.declSet["constarr:"+name] {
		fx.declSet["constarr:"+name] = true
		fx.permDecls = append(fx.permDecls, fmt.Sprintf("(declare-const %s %s)", name, as))
		fx.globalFacts = append(fx.globalFacts, Term{fmt.Sprintf("(forall ((q_ca Int)) (= (select %s q_ca) %s))", name, z.S), SBool})
		// the element constant must be declared permanently as well
		for _, d := range fx.decls {
			if strings.HasPrefix(d, "(declare-const "+z.S+" ") {
				fx.permDecls = append([]string{d}, fx.permDecls...)
			}
		}
	}
	return Term{name, as}
}
