package main

// Per-function verification context: declarations, fresh names, obligations.

import (
	"fmt"
	"go/ast"
	"go/printer"
	"go/token"
	"go/types"
	"strings"

	"golang.org/x/tools/go/packages"
)

type Obl struct {
	Name    string            `json:"name"`
	Kind    string            `json:"kind"`
	Func    string            `json:"func"`
	Pos     string            `json:"pos"`
	Props   []string          `json:"props"`
	Src     string            `json:"src"`
	Status  string            `json:"status"` // discharged | failed
	Backend string            `json:"backend"`
	Secs    float64           `json:"secs"`
	Answers map[string]string `json:"answers,omitempty"`
	Model   string            `json:"model,omitempty"`
	Config  string            `json:"config"`
	Known   string            `json:"known,omitempty"`
	query   string
	trivial bool
}

type unsupported struct{ msg string }

type Exit struct {
	kind    string // "return" | "panic"
	st      *State
	results []Val
	node    ast.Node
	pval    Val
	pexpr   ast.Expr
}

type loopFrame struct {
	ord      int
	it       Term // ghost iteration counter
	label    string
	memHavoc map[string][]string
	memSeen  map[string]bool
	pre      *State
}

type FuncCtx struct {
	eng   *Engine
	pkg   *packages.Package
	info  *types.Info
	decl  *ast.FuncDecl
	con   *Contract
	qname string // pkgpath.Recv.Name
	short string // shortpkg.Recv.Name
	ieee  bool
	ovf   bool
	cfg   string

	decls          []string
	declSet        map[string]bool
	freshN         map[string]int
	obls           []*Obl
	oblNames       map[string]int
	discard        int // >0: obligations are dropped (Houdini trial runs)
	exits          []*Exit
	entry          *State
	params         map[string]Val // entry values of parameters / receiver by name
	paramObj       map[string]types.Object
	lets           map[string]Val
	results        []*types.Var
	loops          []*loopFrame
	nodeOrd        map[ast.Node]int
	loopOrd        map[ast.Node]int
	validT         *Term
	notes          []string
	famCache       []famInst
	inlineDepth    int
	curFile        *ast.File
	houdiniQueries int
	demoted        []string
	kept           map[int][]string
	inlineStack    []*types.Func
	cur            *pkgInfo
	globals        map[string]Val
	globalFacts    []Term
	covers         int
	coverFail      []string
	poison         *poisonState
	deferred       []*ast.DeferStmt
	curNode        ast.Node
	defs           map[string]string
	defers         []*ast.DeferStmt
	goDepth        int
	famOverride    []famInst
}

func (fx *FuncCtx) unsupportedf(format string, a ...interface{}) {
	panic(unsupported{fmt.Sprintf(format, a...)})
}

func (fx *FuncCtx) declare(line string) {
	if fx.declSet[line] {
		return
	}
	fx.declSet[line] = true
	fx.decls = append(fx.decls, line)
}

func (fx *FuncCtx) declConst(name string, sort Sort) Term {
	fx.declare(fmt.Sprintf("(declare-const %s %s)", name, sort))
	if fx.freshN[name] == 0 {
		fx.freshN[name] = 1
	}
	return Term{name, sort}
}

func (fx *FuncCtx) declFun(name string, args []Sort, ret Sort) {
	as := make([]string, len(args))
	for i, a := range args {
		as[i] = string(a)
	}
	fx.declare(fmt.Sprintf("(declare-fun %s (%s) %s)", name, strings.Join(as, " "), ret))
}

func smtName(s string) string {
	r := strings.NewReplacer(" ", "_", "(", "_", ")", "_", "*", "p", "[", "_", "]", "_", "/", "_", ",", "_", "{", "_", "}", "_", "\"", "_", "|", "_", ";", "_", "#", "_", "\\", "_", ":", "_", "'", "_")
	return r.Replace(s)
}

func (fx *FuncCtx) freshName(base string) string {
	base = smtName(base)
	n := fx.freshN[base]
	fx.freshN[base] = n + 1
	if n == 0 {
		return base
	}
	return fmt.Sprintf("%s!%d", base, n)
}

func (fx *FuncCtx) freshConst(base string, sort Sort) Term {
	return fx.declConst(fx.freshName(base), sort)
}

// define introduces a named abbreviation for a term (keeps terms small).
func (fx *FuncCtx) define(base string, t Term) Term {
	if len(t.S) < 48 {
		return t
	}
	name := fx.freshName(base)
	fx.decls = append(fx.decls, fmt.Sprintf("(define-fun %s () %s %s)", name, t.Sort, t.S))
	if t.Sort == SInt {
		if fx.defs == nil {
			fx.defs = map[string]string{}
		}
		fx.defs[name] = t.S
	}
	return Term{name, t.Sort}
}

type fxSnapshot struct {
	nDecls   int
	freshN   map[string]int
	nObls    int
	nExits   int
	oblNames map[string]int
}

func (fx *FuncCtx) snapshot() fxSnapshot {
	s := fxSnapshot{nDecls: len(fx.decls), freshN: map[string]int{}, nObls: len(fx.obls), nExits: len(fx.exits), oblNames: map[string]int{}}
	for k, v := range fx.freshN {
		s.freshN[k] = v
	}
	for k, v := range fx.oblNames {
		s.oblNames[k] = v
	}
	return s
}

// restore rolls back declarations and fresh counters so that a re-execution
// produces the same names (and therefore hits the query cache).
func (fx *FuncCtx) restore(s fxSnapshot) {
	for _, d := range fx.decls[s.nDecls:] {
		delete(fx.declSet, d)
	}
	fx.decls = fx.decls[:s.nDecls]
	fx.freshN = map[string]int{}
	for k, v := range s.freshN {
		fx.freshN[k] = v
	}
	fx.obls = fx.obls[:s.nObls]
	fx.exits = fx.exits[:s.nExits]
	fx.oblNames = map[string]int{}
	for k, v := range s.oblNames {
		fx.oblNames[k] = v
	}
}

func (fx *FuncCtx) src(n ast.Node) string {
	if n == nil {
		return ""
	}
	var b strings.Builder
	printer.Fprint(&b, fx.pkg.Fset, n)
	s := b.String()
	s = strings.Join(strings.Fields(s), " ")
	if len(s) > 90 {
		s = s[:87] + "..."
	}
	return s
}

func (fx *FuncCtx) pos(n ast.Node) token.Position {
	if n == nil {
		return token.Position{}
	}
	return fx.pkg.Fset.Position(n.Pos())
}

func (fx *FuncCtx) buildQuery(hyps []Term, goal Term) string {
	var b strings.Builder
	b.WriteString(preamble(fx.ieee))
	for _, d := range fx.decls {
		b.WriteString(d)
		b.WriteByte('\n')
	}
	b.WriteString(fx.distinctStrings())
	for _, f := range fx.globalFacts {
		b.WriteString("(assert ")
		b.WriteString(f.S)
		b.WriteString(")\n")
	}
	for _, h := range hyps {
		b.WriteString("(assert ")
		b.WriteString(h.S)
		b.WriteString(")\n")
	}
	b.WriteString("(assert (not ")
	b.WriteString(goal.S)
	b.WriteString("))\n")
	return b.String()
}

// ordinal of a node among nodes of the same class inside the function.
func (fx *FuncCtx) ordinal(n ast.Node) int {
	if fx.nodeOrd == nil {
		fx.nodeOrd = map[ast.Node]int{}
		counts := map[string]int{}
		ast.Inspect(fx.decl, func(x ast.Node) bool {
			if x == nil {
				return true
			}
			k := fmt.Sprintf("%T", x)
			counts[k]++
			fx.nodeOrd[x] = counts[k]
			return true
		})
	}
	return fx.nodeOrd[n]
}

// oblige records a proof obligation: hyps(st) => goal.
func (fx *FuncCtx) oblige(st *State, kind string, goal Term, node ast.Node, what string) {
	if fx.discard > 0 {
		return
	}
	if what == "" {
		what = fx.src(node)
	}
	if fx.goDepth > 0 && (kind == "frame" || kind == "call.frame") {
		kind = "go." + kind
	}
	base := fmt.Sprintf("%s/%s#%d[%s]", fx.short, kind, fx.ordinal(node), what)
	if fx.inlineDepth > 0 {
		base += "~inl"
	}
	fx.oblNames[base]++
	name := base
	if c := fx.oblNames[base]; c > 1 {
		name = fmt.Sprintf("%s~%d", base, c)
	}
	o := &Obl{Name: name, Kind: kind, Func: fx.short, Pos: shortPos(fx.pos(node)), Src: what, Config: fx.cfg}
	if fx.con != nil {
		o.Props = propsFor(fx.con.Props, kind)
	}
	if goal.S == "true" {
		o.trivial = true
		o.Status = "discharged"
		o.Backend = "syntactic"
	} else {
		o.query = fx.buildQuery(st.hypTerms(), goal)
	}
	fx.obls = append(fx.obls, o)
}

func shortPos(p token.Position) string {
	f := p.Filename
	f = strings.TrimPrefix(f, "/repo/")
	return fmt.Sprintf("%s:%d", f, p.Line)
}

// quick synchronous check used by Houdini and feasibility tests.
func (fx *FuncCtx) proves(hyps []Term, goal Term, timeoutMs int) bool {
	if goal.S == "true" {
		return true
	}
	q := fx.buildQuery(hyps, goal)
	r := solve(q, timeoutMs, false)
	return r.Status == "unsat"
}

func (fx *FuncCtx) infeasible(st *State) bool {
	return fx.proves(st.hypTerms(), tFalse, 2000)
}

// ---------------------------------------------------------------------------
// fresh / zero values of a Go type

func (fx *FuncCtx) sortOf(t types.Type) Sort {
	s := scalarSort(t)
	if s == "" {
		fx.unsupportedf("no scalar sort for type %s", t)
	}
	return s
}

// freshVal makes an unconstrained value of type t, with its typing facts.
func (fx *FuncCtx) freshVal(base string, t types.Type) (Val, []Term) {
	var facts []Term
	switch u := t.Underlying().(type) {
	case *types.Basic:
		if k, ok := intInfo(t); ok {
			c := fx.freshConst(base, SInt)
			return c, []Term{k.rangeOf(c)}
		}
		if u.Info()&types.IsString != 0 {
			id := fx.freshConst(base+".str", SStr)
			ln := fx.freshConst(base+".len", SInt)
			fx.declFun("strlen", []Sort{SStr}, SInt)
			return StrV{ID: id, Len: ln}, []Term{Ge(ln, IntLit(0)), Eq(ln, app(SInt, "strlen", id))}
		}
		return fx.freshConst(base, fx.sortOf(t)), nil
	case *types.Slice:
		n := fx.freshName(base)
		sv := SliceV{Rid: fx.declConst(n+".rid", SInt), Off: fx.declConst(n+".off", SInt), Len: fx.declConst(n+".len", SInt), Cap: fx.declConst(n+".cap", SInt), Elem: u.Elem()}
		facts = append(facts, Ge(sv.Rid, IntLit(0)), Ge(sv.Off, IntLit(0)), Ge(sv.Len, IntLit(0)), Le(sv.Len, sv.Cap), Lt(sv.Cap, Pow2(62)),
			Implies(Eq(sv.Rid, IntLit(0)), Eq(sv.Cap, IntLit(0))))
		return sv, facts
	case *types.Struct:
		sv := StructV{T: t}
		for i := 0; i < u.NumFields(); i++ {
			f := u.Field(i)
			v, fs := fx.freshVal(base+"."+f.Name(), f.Type())
			sv.Fields = append(sv.Fields, v)
			facts = append(facts, fs...)
		}
		return sv, facts
	case *types.Array:
		es := scalarSort(u.Elem())
		if es == "" {
			fx.unsupportedf("array of non-scalar %s", t)
		}
		return ArrayV{T: u, Arr: fx.freshConst(base, ArraySort(SInt, es))}, nil
	case *types.Pointer:
		c := fx.freshConst(base, SInt)
		return PtrV{Ref: c, Elem: u.Elem()}, []Term{Ge(c, IntLit(0))}
	case *types.Map:
		c := fx.freshConst(base, SInt)
		return MapV{Ref: c, T: u}, []Term{Ge(c, IntLit(0))}
	case *types.Interface:
		return IfaceV{T: fx.freshConst(base, SIfc), GT: t}, nil
	case *types.Signature:
		return FuncV{Name: base}, nil
	}
	fx.unsupportedf("fresh value of type %s", t)
	return nil, nil
}

func (fx *FuncCtx) zeroVal(t types.Type) Val {
	switch u := t.Underlying().(type) {
	case *types.Basic:
		if _, ok := intInfo(t); ok {
			return IntLit(0)
		}
		if s, ok := isFloat(t); ok {
			return fx.floatConst(0, s)
		}
		if s, ok := isComplex(t); ok {
			return fx.complexZero(s)
		}
		if u.Info()&types.IsBoolean != 0 {
			return tFalse
		}
		if u.Info()&types.IsString != 0 {
			return fx.strLit("")
		}
	case *types.Slice:
		return SliceV{Rid: IntLit(0), Off: IntLit(0), Len: IntLit(0), Cap: IntLit(0), Elem: u.Elem()}
	case *types.Struct:
		sv := StructV{T: t}
		for i := 0; i < u.NumFields(); i++ {
			sv.Fields = append(sv.Fields, fx.zeroVal(u.Field(i).Type()))
		}
		return sv
	case *types.Array:
		es := scalarSort(u.Elem())
		if es == "" {
			fx.unsupportedf("array of non-scalar %s", t)
		}
		z := fx.zeroVal(u.Elem()).(Term)
		return ArrayV{T: u, Arr: Term{fmt.Sprintf("((as const %s) %s)", ArraySort(SInt, es), z.S), ArraySort(SInt, es)}}
	case *types.Pointer:
		return PtrV{Ref: IntLit(0), Elem: u.Elem()}
	case *types.Map:
		return MapV{Ref: IntLit(0), T: u}
	case *types.Interface:
		fx.declare("(declare-const nilIface Iface)")
		return IfaceV{T: Term{"nilIface", SIfc}, GT: t}
	case *types.Signature:
		return FuncV{Name: "nil"}
	}
	fx.unsupportedf("zero value of type %s", t)
	return nil
}

func (fx *FuncCtx) floatConst(v float64, s Sort) Term {
	if s == SF32 {
		t, d := f32Lit(float32(v), fx.ieee)
		if d != "" {
			fx.declare(d)
		}
		return t
	}
	t, d := f64Lit(v, fx.ieee)
	if d != "" {
		fx.declare(d)
	}
	return t
}

func (fx *FuncCtx) complexZero(s Sort) Term {
	name := "czero_" + string(s)
	fx.declare(fmt.Sprintf("(declare-const %s %s)", name, s))
	return Term{name, s}
}

func (fx *FuncCtx) strLit(s string) StrV {
	id := fx.eng.strConst(s)
	fx.declare(fmt.Sprintf("(declare-const %s Str)", id))
	return StrV{ID: Term{id, SStr}, Len: IntLit(int64(len(s)))}
}
