package main

// Per-function verification context: declarations, fresh names, obligations.

import (
	"fmt"
	"go/ast"
	"go/printer"
	"go/token"
	"go/types"
	"os"
	"regexp"
	"sort"
	"strings"

	"golang.org/x/tools/go/packages"
)

type Obl struct {
	Name    string            `json:"name"`
	Kind    string            `json:"kind"`
	Func    string            `json:"func"`
	Pos     string            `json:"pos"`
	Props   []string          `json:"props"`
	Src     string            `json:"src"`
	Status  string            `json:"status"` // discharged | failed
	Backend string            `json:"backend"`
	Secs    float64           `json:"secs"`
	Answers map[string]string `json:"answers,omitempty"`
	Model   string            `json:"model,omitempty"`
	Config  string            `json:"config"`
	Known   string            `json:"known,omitempty"`
	query   string
	trivial bool
	key     string
	eng     *Engine
}

var dumpN int

type unsupported struct{ msg string }

type Exit struct {
	kind    string // "return" | "panic"
	st      *State
	results []Val
	node    ast.Node
	pval    Val
	pexpr   ast.Expr
}

type loopFrame struct {
	ord      int
	it       Term // ghost iteration counter
	label    string
	memHavoc map[string][]string
	memSeen  map[string]bool
	seenName string
	pre      *State
}

type FuncCtx struct {
	eng   *Engine
	pkg   *packages.Package
	info  *types.Info
	decl  *ast.FuncDecl
	con   *Contract
	qname string // pkgpath.Recv.Name
	short string // shortpkg.Recv.Name
	ieee  bool
	real  bool // floats are mathematical reals (second pass for [real] clauses)
	ovf   bool
	cfg   string

	decls          []string
	declSet        map[string]bool
	freshN         map[string]int
	obls           []*Obl
	oblNames       map[string]int
	discard        int // >0: obligations are dropped (Houdini trial runs)
	exits          []*Exit
	entry          *State
	params         map[string]Val // entry values of parameters / receiver by name
	paramObj       map[string]types.Object
	lets           map[string]Val
	results        []*types.Var
	loops          []*loopFrame
	nodeOrd        map[ast.Node]int
	loopOrd        map[ast.Node]int
	validT         *Term
	notes          []string
	famCache       []famInst
	inlineDepth    int
	curFile        *ast.File
	houdiniQueries int
	demoted        []string
	heapDeclLog    []heapDecl              // every lazy materialisation of a heap / memory array (name, sort)
	loopHeapKeys   map[ast.Node][]heapDecl // arrays a loop body was seen to touch (cached probe result)
	probing        int                     // > 0 while a loop body is executed only to discover the arrays it touches
	kept           map[int][]string
	keepOnly       map[string]bool // real pass: names of the candidates kept by the first pass
	inlineStack    []*types.Func
	cur            *pkgInfo
	globals        map[string]Val
	globalFacts    []Term
	covers         int
	coverFail      []string
	poison         *poisonState
	rfamCache      []famInst
	arrViewSrc     map[string]arrViewInfo
	iteSplitDepth  int
	ownFamN        int
	recInfos       map[*SpecFunc]*recInfo
	recBuilding    *recInfo
	recSeen        map[string]bool
	recInfoOrder   []*SpecFunc
	recSeenOrder   []string
	recUnfold      []recFact
	recFrames      []recFact
	recTop         []recApp
	deferred       []*ast.DeferStmt
	curNode        ast.Node
	defs           map[string]string
	boolDefs       map[string]string
	defers         []*ast.DeferStmt
	goDepth        int
	inQuant        int
	modDepth       int
	permDecls      []string
	hints          []types.Type
	hintDone       bool
	dynKnown       map[string]bool
	implIfaces     map[string]types.Type
	outstanding    []famInst
	famOverride    []famInst
}

func (fx *FuncCtx) unsupportedf(format string, a ...interface{}) {
	panic(unsupported{fmt.Sprintf(format, a...)})
}

func (fx *FuncCtx) declare(line string) {
	if fx.declSet[line] {
		return
	}
	fx.declSet[line] = true
	fx.decls = append(fx.decls, line)
}

func (fx *FuncCtx) declConst(name string, sort Sort) Term {
	fx.declare(fmt.Sprintf("(declare-const %s %s)", name, sort))
	if fx.freshN[name] == 0 {
		fx.freshN[name] = 1
	}
	return Term{name, sort}
}

func (fx *FuncCtx) declFun(name string, args []Sort, ret Sort) {
	as := make([]string, len(args))
	for i, a := range args {
		as[i] = string(a)
	}
	fx.declare(fmt.Sprintf("(declare-fun %s (%s) %s)", name, strings.Join(as, " "), ret))
}

func smtName(s string) string {
	r := strings.NewReplacer(" ", "_", "(", "_", ")", "_", "*", "p", "[", "_", "]", "_", "/", "_", ",", "_", "{", "_", "}", "_", "\"", "_", "|", "_", ";", "_", "#", "_", "\\", "_", ":", "_", "'", "_")
	return r.Replace(s)
}

var smtReserved = map[string]bool{"store": true, "select": true, "and": true, "or": true, "not": true, "ite": true, "let": true, "forall": true, "exists": true,
	"div": true, "mod": true, "abs": true, "distinct": true, "true": true, "false": true, "xor": true, "par": true, "as": true, "is": true, "match": true,
	"set": true, "bag": true, "seq": true, "str": true, "re": true, "fp": true, "bv": true, "int": true, "real": true, "array": true, "member": true, "subset": true,
	"union": true, "insert": true, "card": true, "to_real": true, "to_int": true, "is_int": true, "exp": true, "sin": true, "cos": true, "tan": true, "sqrt": true, "pi": true}

func (fx *FuncCtx) freshName(base string) string {
	base = smtName(base)
	if smtReserved[base] {
		base += "_v"
	}
	n := fx.freshN[base]
	fx.freshN[base] = n + 1
	if n == 0 {
		return base
	}
	return fmt.Sprintf("%s!%d", base, n)
}

func (fx *FuncCtx) freshConst(base string, sort Sort) Term {
	return fx.declConst(fx.freshName(base), sort)
}

// define introduces a named abbreviation for a term (keeps terms small).
func (fx *FuncCtx) define(base string, t Term) Term {
	if len(t.S) < 48 || fx.inQuant > 0 {
		return t
	}
	name := fx.freshName(base)
	fx.decls = append(fx.decls, fmt.Sprintf("(define-fun %s () %s %s)", name, t.Sort, t.S))
	if t.Sort == SInt {
		if fx.defs == nil {
			fx.defs = map[string]string{}
		}
		fx.defs[name] = t.S
	}
	if t.Sort == SBool {
		fx.noteBoolDef(name, t.S)
	}
	return Term{name, t.Sort}
}

func (fx *FuncCtx) noteBoolDef(name, body string) {
	if len(body) >= 1000 {
		return
	}
	if fx.boolDefs == nil {
		fx.boolDefs = map[string]string{}
	}
	fx.boolDefs[name] = body
}

type arrViewInfo struct {
	src ast.Expr
	t   *types.Array
}

type fxSnapshot struct {
	nDecls                                              int
	freshN                                              map[string]int
	nObls                                               int
	nExits                                              int
	oblNames                                            map[string]int
	nRecInfo, nRecSeen, nRecUnfold, nRecFrames, nRecTop int
}

type heapDecl struct {
	name string
	sort Sort
}

func (fx *FuncCtx) snapshot() fxSnapshot {
	s := fxSnapshot{nDecls: len(fx.decls), freshN: map[string]int{}, nObls: len(fx.obls), nExits: len(fx.exits), oblNames: map[string]int{}}
	s.nRecInfo, s.nRecSeen, s.nRecUnfold, s.nRecFrames, s.nRecTop = len(fx.recInfoOrder), len(fx.recSeenOrder), len(fx.recUnfold), len(fx.recFrames), len(fx.recTop)
	for k, v := range fx.freshN {
		s.freshN[k] = v
	}
	for k, v := range fx.oblNames {
		s.oblNames[k] = v
	}
	return s
}

// restore rolls back declarations and fresh counters so that a re-execution
// produces the same names (and therefore hits the query cache).
func (fx *FuncCtx) restore(s fxSnapshot) {
	for _, d := range fx.decls[s.nDecls:] {
		delete(fx.declSet, d)
	}
	fx.decls = fx.decls[:s.nDecls]
	for _, sp := range fx.recInfoOrder[s.nRecInfo:] {
		delete(fx.recInfos, sp)
	}
	fx.recInfoOrder = fx.recInfoOrder[:s.nRecInfo]
	for _, k := range fx.recSeenOrder[s.nRecSeen:] {
		delete(fx.recSeen, k)
	}
	fx.recSeenOrder = fx.recSeenOrder[:s.nRecSeen]
	fx.recUnfold, fx.recFrames, fx.recTop = fx.recUnfold[:s.nRecUnfold], fx.recFrames[:s.nRecFrames], fx.recTop[:s.nRecTop]
	fx.freshN = map[string]int{}
	for k, v := range s.freshN {
		fx.freshN[k] = v
	}
	fx.obls = fx.obls[:s.nObls]
	fx.exits = fx.exits[:s.nExits]
	fx.oblNames = map[string]int{}
	for k, v := range s.oblNames {
		fx.oblNames[k] = v
	}
}

func (fx *FuncCtx) src(n ast.Node) string {
	if n == nil {
		return ""
	}
	var b strings.Builder
	printer.Fprint(&b, fx.pkg.Fset, n)
	s := b.String()
	s = strings.Join(strings.Fields(s), " ")
	if len(s) > 90 {
		s = s[:87] + "..."
	}
	return s
}

func (fx *FuncCtx) pos(n ast.Node) token.Position {
	if n == nil {
		return token.Position{}
	}
	return fx.pkg.Fset.Position(n.Pos())
}

// skolemizeGoal strips leading universal quantifiers of the goal, replacing
// the bound variables by fresh constants (declared in the returned text).
func skolemizeGoal(goal Term) (Term, []string, string) {
	var sks []string
	var decls strings.Builder
	g := goal.S
	for i := 0; i < 6; i++ {
		if !strings.HasPrefix(g, "(forall ((") {
			break
		}
		n := parseSx(g)
		if len(n.kids) != 3 || len(n.kids[1].kids) != 1 || len(n.kids[1].kids[0].kids) != 2 {
			break
		}
		v := n.kids[1].kids[0].kids[0].atom
		srt := n.kids[1].kids[0].kids[1].String()
		sk := "sk!" + v
		decls.WriteString("(declare-const " + sk + " " + srt + ")\n")
		g = replaceSym(n.kids[2].String(), v, sk)
		sks = append(sks, sk)
	}
	return Term{g, SBool}, sks, decls.String()
}

// instantiate adds ground instances of universally quantified hypotheses for
// the given terms (the quantified hypothesis itself is kept).
func instantiate(h string, grounds []string, goalIdx []string, out *[]string) {
	n := parseSx(h)
	var guard *sx
	if n.isApp("=>") && len(n.kids) == 3 && n.kids[2].isApp("forall") {
		guard = n.kids[1]
		n = n.kids[2]
	}
	if n.isApp("forall") && len(n.kids) == 3 && len(n.kids[1].kids) == 2 {
		instantiatePair(n, guard, grounds, goalIdx, out)
		return
	}
	if !n.isApp("forall") || len(n.kids) != 3 || len(n.kids[1].kids) != 1 {
		return
	}
	bv := n.kids[1].kids[0]
	if len(bv.kids) != 2 || bv.kids[1].String() != "Int" {
		return
	}
	// nested universal quantifiers: instantiate all levels with the goal's skolem constants only
	if inner := n.kids[2]; inner.isApp("forall") || (inner.isApp("=>") && len(inner.kids) == 3 && inner.kids[2].isApp("forall")) {
		var sks []string
		for _, g := range grounds {
			if strings.HasPrefix(g, "sk!") || strings.HasPrefix(g, "ske!") {
				sks = append(sks, g)
			}
		}
		// loop counters and other plain symbols that occur as summands of goal indices
		for _, g := range grounds {
			if len(sks) >= 6 {
				break
			}
			if strings.ContainsAny(g, "() ") || strings.HasPrefix(g, "sk") || strings.HasSuffix(g, "$off") || strings.HasSuffix(g, "$rid") || strings.HasSuffix(g, ".off") || strings.HasSuffix(g, ".rid") {
				continue
			}
			if strings.Contains(g, "@L") {
				sks = append(sks, g)
			}
		}
		if len(sks) == 0 || len(sks) > 6 {
			return
		}
		var rec func(t string, depth int)
		count := 0
		usedSk := map[string]bool{}
		rec = func(t string, depth int) {
			if count > 200 {
				return
			}
			m := parseSx(t)
			var g2 *sx
			if m.isApp("=>") && len(m.kids) == 3 && m.kids[2].isApp("forall") {
				g2 = m.kids[1]
				m = m.kids[2]
			}
			if !m.isApp("forall") || len(m.kids) != 3 || len(m.kids[1].kids) != 1 || depth > 5 {
				count++
				if guard != nil {
					t = "(=> " + guard.String() + " " + t + ")"
				}
				*out = append(*out, t)
				return
			}
			v := m.kids[1].kids[0].kids[0].atom
			b := m.kids[2].String()
			for _, s := range sks {
				if usedSk[s] && len(sks) >= 3 {
					continue // injective assignments only (distinct bound variables, distinct skolems)
				}
				usedSk[s] = true
				inst := replaceSym(b, v, s)
				if g2 != nil {
					inst = "(=> " + g2.String() + " " + inst + ")"
				}
				rec(inst, depth+1)
				usedSk[s] = false
			}
		}
		rec(n.String(), 0)
		return
	}
	body := n.kids[2].String()
	// matching modulo linear arithmetic: for an index (a + q + b) in the body and a
	// goal index G, propose q := G - a - b
	q := bv.kids[0].atom
	var bodyIdx []string
	{
		acc := map[string]bool{}
		indexTermsOnly(body, acc)
		for t := range acc {
			bodyIdx = append(bodyIdx, t)
		}
		sort.Strings(bodyIdx)
	}
	seen := map[string]bool{}
	for _, g := range grounds {
		seen[g] = true
	}
	for _, bi := range bodyIdx {
		var ts []sterm
		flattenSum(parseSx(bi), false, nil, 0, &ts)
		var rest []sterm
		nq := 0
		for _, t := range ts {
			if t.t.String() == q && !t.neg {
				nq++
			} else {
				rest = append(rest, t)
			}
		}
		if nq != 1 {
			continue
		}
		for _, g := range goalIdx {
			var gs []sterm
			flattenSum(parseSx(g), false, nil, 0, &gs)
			for _, r := range rest {
				gs = append(gs, sterm{!r.neg, r.t})
			}
			c := sumOf(cancelTerms(gs)).S
			if !seen[c] && len(c) < 200 && replaceSym(c, q, "") == c {
				seen[c] = true
				grounds = append(grounds, c)
			}
		}
	}
	if len(grounds) > 24 {
		grounds = grounds[:24]
	}
	for _, g := range grounds {
		inst := replaceSym(body, bv.kids[0].atom, g)
		if guard != nil {
			inst = "(=> " + guard.String() + " " + inst + ")"
		}
		*out = append(*out, inst)
	}
}

// matchCandidates proposes instances for the bound variable q of body: the
// given ground terms plus, for an index (a + q + b) in the body and a goal
// index G, the term G - a - b (matching modulo linear arithmetic).
func matchCandidates(body, q string, others []string, grounds, goalIdx []string, max int) []string {
	var bodyIdx []string
	acc := map[string]bool{}
	indexTermsOnly(body, acc)
	for t := range acc {
		bodyIdx = append(bodyIdx, t)
	}
	sort.Strings(bodyIdx)
	seen := map[string]bool{}
	var matched []string
	for _, bi := range bodyIdx {
		var ts []sterm
		flattenSum(parseSx(bi), false, nil, 0, &ts)
		var rest []sterm
		nq := 0
		other := false
		for _, t := range ts {
			if t.t.String() == q && !t.neg {
				nq++
			} else {
				for _, o := range others {
					if replaceSym(t.t.String(), o, "") != t.t.String() {
						other = true
					}
				}
				rest = append(rest, t)
			}
		}
		if nq != 1 || other {
			continue
		}
		for _, g := range goalIdx {
			var gs []sterm
			flattenSum(parseSx(g), false, nil, 0, &gs)
			for _, r := range rest {
				gs = append(gs, sterm{!r.neg, r.t})
			}
			c := sumOf(cancelTerms(gs)).S
			if !seen[c] && len(c) < 200 && replaceSym(c, q, "") == c {
				seen[c] = true
				matched = append(matched, c)
			}
		}
	}
	for _, g := range grounds {
		if !seen[g] {
			seen[g] = true
			matched = append(matched, g)
		}
	}
	if len(matched) > max {
		matched = matched[:max]
	}
	return matched
}

// instantiatePair instantiates a hypothesis (forall ((a Int) (b Int)) body).
func instantiatePair(n *sx, guard *sx, grounds, goalIdx []string, out *[]string) {
	a, b := n.kids[1].kids[0], n.kids[1].kids[1]
	if len(a.kids) != 2 || len(b.kids) != 2 || a.kids[1].String() != "Int" || b.kids[1].String() != "Int" {
		return
	}
	body := n.kids[2].String()
	qa, qb := a.kids[0].atom, b.kids[0].atom
	ca := append([]string{"0"}, matchCandidates(body, qa, []string{qb}, grounds, goalIdx, 10)...)
	cb := append([]string{"0"}, matchCandidates(body, qb, []string{qa}, grounds, goalIdx, 10)...)
	for _, x := range ca {
		for _, y := range cb {
			if x == y {
				continue
			}
			inst := replaceSym(replaceSym(body, qa, x), qb, y)
			if guard != nil {
				inst = "(=> " + guard.String() + " " + inst + ")"
			}
			*out = append(*out, inst)
		}
	}
}

// unitPropagate rewrites hypotheses (= A phi) and (=> A phi) to phi when the
// propositional constant A is itself a hypothesis (so that quantified phi are
// visible to the instantiation step).
func unitPropagate(hyps []Term) []Term {
	units := map[string]bool{}
	for _, h := range hyps {
		if !strings.ContainsAny(h.S, "() ") {
			units[h.S] = true
		}
	}
	if len(units) == 0 {
		return hyps
	}
	var out []Term
	changed := false
	for _, h := range hyps {
		if (strings.HasPrefix(h.S, "(= ") || strings.HasPrefix(h.S, "(=> ")) && strings.Contains(h.S, "(forall ") {
			n := parseSx(h.S)
			if len(n.kids) == 3 && n.kids[1].kids == nil && units[n.kids[1].atom] {
				out = append(out, Term{n.kids[2].String(), SBool})
				changed = true
				continue
			}
		}
		out = append(out, h)
	}
	if !changed {
		return hyps
	}
	return out
}

// indexTerms collects the terms used as array indices in t (and their summands).
func indexTerms(t string, acc map[string]bool) {
	var walk func(n *sx)
	walk = func(n *sx) {
		if n.kids == nil {
			return
		}
		if n.isApp("select") && len(n.kids) == 3 {
			ix := n.kids[2]
			acc[ix.String()] = true
			if ix.isApp("+") {
				for _, k := range ix.kids[1:] {
					acc[k.String()] = true
				}
			}
		}
		for _, k := range n.kids {
			walk(k)
		}
	}
	walk(parseSx(t))
}

// indexTermsOnly collects the index terms of inner selects (element positions).
func indexTermsOnly(t string, acc map[string]bool) {
	var walk func(n *sx)
	walk = func(n *sx) {
		if n.kids == nil {
			return
		}
		if n.isApp("select") && len(n.kids) == 3 && n.kids[1].isApp("select") {
			acc[n.kids[2].String()] = true
		}
		for _, k := range n.kids {
			walk(k)
		}
	}
	walk(parseSx(t))
}

// skolemizeExists replaces existential quantifiers in positive positions of a
// hypothesis by fresh constants.
func skolemizeExists(h string, ctr *int, decls *strings.Builder, sks *[]string) string {
	if !strings.Contains(h, "(exists ((") {
		return h
	}
	var walk func(n *sx, pos bool) *sx
	walk = func(n *sx, pos bool) *sx {
		if n.kids == nil {
			return n
		}
		switch {
		case n.isApp("and") || n.isApp("or"):
			out := &sx{kids: []*sx{n.kids[0]}}
			for _, k := range n.kids[1:] {
				out.kids = append(out.kids, walk(k, pos))
			}
			return out
		case n.isApp("not") && len(n.kids) == 2:
			return &sx{kids: []*sx{n.kids[0], walk(n.kids[1], !pos)}}
		case n.isApp("=>") && len(n.kids) == 3:
			return &sx{kids: []*sx{n.kids[0], walk(n.kids[1], !pos), walk(n.kids[2], pos)}}
		case n.isApp("exists") && pos && len(n.kids) == 3:
			body := n.kids[2].String()
			for _, bv := range n.kids[1].kids {
				if len(bv.kids) != 2 {
					return n
				}
				*ctr++
				sk := fmt.Sprintf("ske!%d!%s", *ctr, bv.kids[0].atom)
				decls.WriteString("(declare-const " + sk + " " + bv.kids[1].String() + ")\n")
				body = replaceSym(body, bv.kids[0].atom, sk)
				*sks = append(*sks, sk)
			}
			return walk(parseSx(body), pos)
		}
		return n
	}
	return walk(parseSx(h), true).String()
}

func (fx *FuncCtx) buildQuery(hyps []Term, goal Term) string {
	var skDecls string
	var sks []string
	// peel implications (antecedent becomes a hypothesis) and leading universal quantifiers (skolemized)
	for round := 0; round < 8; round++ {
		if strings.HasPrefix(goal.S, "(forall ((") {
			g2, s2, d2 := skolemizeGoal(goal)
			if len(s2) == 0 {
				break
			}
			// distinct skolem names across rounds
			for _, s := range s2 {
				ns := fmt.Sprintf("%s_%d", s, round)
				g2.S = replaceSym(g2.S, s, ns)
				d2 = strings.Replace(d2, "(declare-const "+s+" ", "(declare-const "+ns+" ", 1)
				sks = append(sks, ns)
			}
			goal, skDecls = g2, skDecls+d2
			continue
		}
		if strings.HasPrefix(goal.S, "(=> ") {
			n := parseSx(goal.S)
			if len(n.kids) == 3 {
				hyps = append(append([]Term{}, hyps...), Term{n.kids[1].String(), SBool})
				goal = Term{n.kids[2].String(), SBool}
				continue
			}
		}
		break
	}
	{
		var db strings.Builder
		ctr := 0
		changed := false
		nh := make([]Term, len(hyps))
		for i, h := range hyps {
			s := skolemizeExists(h.S, &ctr, &db, &sks)
			if s != h.S {
				changed = true
			}
			nh[i] = Term{s, SBool}
		}
		if changed {
			hyps = nh
			skDecls += db.String()
		}
	}
	hyps = unitPropagate(hyps)
	var extra []string
	if strings.Contains(goal.S, "select") || len(sks) > 0 {
		hasQ := false
		for _, h := range hyps {
			if strings.Contains(h.S, "(forall ((") {
				hasQ = true
				break
			}
		}
		if hasQ {
			acc := map[string]bool{}
			for _, s := range sks {
				acc[s] = true
			}
			indexTerms(goal.S, acc)
			gi := map[string]bool{}
			indexTermsOnly(goal.S, gi)
			var goalIdx []string
			for g := range gi {
				goalIdx = append(goalIdx, g)
			}
			{
				var keep []string
				for _, g := range goalIdx {
					if !hasBoundVar(g) {
						keep = append(keep, g)
					}
				}
				goalIdx = keep
			}
			sort.Strings(goalIdx)
			if len(goalIdx) > 8 {
				goalIdx = goalIdx[:8]
			}
			// element positions named by branch conditions on the path
			// (propositional constants with a definition)
			{
				hi := map[string]bool{}
				for _, h := range hyps {
					a := h.S
					if strings.HasPrefix(a, "(not ") && strings.HasSuffix(a, ")") {
						a = a[5 : len(a)-1]
					}
					if d, ok := fx.boolDefs[a]; ok && !strings.Contains(d, "(forall ") {
						indexTermsOnly(d, hi)
					}
				}
				var hs []string
				for g := range hi {
					if !hasBoundVar(g) && len(g) < 120 {
						hs = append(hs, g)
					}
				}
				sort.Strings(hs)
				// and by small ground comparisons on the path, latest first
				for i := len(hyps) - 1; i >= 0 && len(hs) < 12; i-- {
					h := hyps[i].S
					if len(h) > 300 || !strings.Contains(h, "(select ") || strings.Contains(h, "(forall ") {
						continue
					}
					pi := map[string]bool{}
					indexTermsOnly(h, pi)
					var ps []string
					for g := range pi {
						if !hasBoundVar(g) && len(g) < 120 && !hi[g] {
							hi[g] = true
							ps = append(ps, g)
						}
					}
					sort.Strings(ps)
					hs = append(hs, ps...)
				}
				for _, g := range hs {
					if len(goalIdx) >= 12 {
						break
					}
					dup := false
					for _, o := range goalIdx {
						if o == g {
							dup = true
						}
					}
					if !dup {
						goalIdx = append(goalIdx, g)
					}
				}
			}
			var grounds []string
			for g := range acc {
				if len(g) < 200 && !hasBoundVar(g) {
					grounds = append(grounds, g)
				}
			}
			sort.Strings(grounds)
			if len(grounds) > 16 {
				grounds = grounds[:16]
			}
			for _, h := range hyps {
				if strings.Contains(h.S, "(forall ((") && len(h.S) < 4000 {
					instantiate(h.S, grounds, goalIdx, &extra)
				}
			}
		}
	}
	var b strings.Builder
	b.WriteString(preamble(fx.ieee, fx.real))
	perm := map[string]bool{}
	for _, d := range fx.permDecls {
		if perm[d] {
			continue
		}
		perm[d] = true
		b.WriteString(d)
		b.WriteByte('\n')
	}
	for _, d := range fx.decls {
		if perm[d] {
			continue
		}
		b.WriteString(d)
		b.WriteByte('\n')
	}
	b.WriteString(fx.distinctStrings())
	b.WriteString(fx.implementsFacts())
	for _, f := range fx.globalFacts {
		b.WriteString("(assert ")
		b.WriteString(f.S)
		b.WriteString(")\n")
	}
	b.WriteString(skDecls)
	for _, h := range hyps {
		b.WriteString("(assert ")
		b.WriteString(h.S)
		b.WriteString(")\n")
	}
	if len(extra) > 0 {
		b.WriteString(extraBegin)
	}
	for _, h := range extra {
		b.WriteString("(assert ")
		b.WriteString(h)
		b.WriteString(")\n")
	}
	if len(extra) > 0 {
		b.WriteString(extraEnd)
	}
	if len(fx.recInfos) > 0 {
		var tb strings.Builder
		for _, h := range hyps {
			tb.WriteString(h.S)
		}
		for _, h := range extra {
			tb.WriteString(h)
		}
		tb.WriteString(goal.S)
		for _, d := range fx.decls {
			if strings.HasPrefix(d, "(define-fun ") && strings.Contains(d, "(rs_") {
				tb.WriteString(d)
			}
		}
		for _, f := range fx.recFactsFor(tb.String()) {
			b.WriteString("(assert ")
			b.WriteString(f)
			b.WriteString(")\n")
		}
	}
	b.WriteString("(assert (not ")
	b.WriteString(goal.S)
	b.WriteString("))\n")
	return b.String()
}

// ordinal of a node among nodes of the same class inside the function.
func (fx *FuncCtx) ordinal(n ast.Node) int {
	if fx.nodeOrd == nil {
		fx.nodeOrd = map[ast.Node]int{}
		counts := map[string]int{}
		ast.Inspect(fx.decl, func(x ast.Node) bool {
			if x == nil {
				return true
			}
			k := fmt.Sprintf("%T", x)
			counts[k]++
			fx.nodeOrd[x] = counts[k]
			return true
		})
	}
	return fx.nodeOrd[n]
}

// obligeSplit emits one obligation per top-level conjunct of the goal (smaller
// queries, and a failure names the conjunct).
func (fx *FuncCtx) obligeSplit(st *State, kind string, goal Term, node ast.Node, what string) {
	if !strings.HasPrefix(goal.S, "(and ") || len(goal.S) < 400 {
		fx.oblige(st, kind, goal, node, what)
		return
	}
	var parts []string
	var flat func(n *sx)
	flat = func(n *sx) {
		if n.isApp("and") {
			for _, k := range n.kids[1:] {
				flat(k)
			}
			return
		}
		parts = append(parts, n.String())
	}
	flat(parseSx(goal.S))
	for i, p := range parts {
		fx.oblige(st, kind, Term{p, SBool}, node, fmt.Sprintf("%s  (conjunct %d/%d)", what, i+1, len(parts)))
	}
}

func (fx *FuncCtx) obligeKind(st *State, kind string, goal Term, node ast.Node, what string) {
	fx.oblige(st, kind, goal, node, what)
}

// oblige records a proof obligation: hyps(st) => goal.
func (fx *FuncCtx) oblige(st *State, kind string, goal Term, node ast.Node, what string) {
	if fx.discard > 0 {
		return
	}
	if fx.real && !strings.HasSuffix(kind, ".real") {
		return // the real-arithmetic pass only decides the [real] clauses
	}
	if what == "" {
		what = fx.src(node)
	}
	if fx.goDepth > 0 && (kind == "frame" || kind == "call.frame") {
		kind = "go." + kind
	}
	base := fmt.Sprintf("%s/%s#%d[%s]", fx.short, kind, fx.ordinal(node), what)
	if fx.inlineDepth > 0 {
		base += "~inl"
	}
	fx.oblNames[base]++
	name := base
	if c := fx.oblNames[base]; c > 1 {
		name = fmt.Sprintf("%s~%d", base, c)
	}
	o := &Obl{Name: name, Kind: kind, Func: fx.short, Pos: shortPos(fx.pos(node)), Src: what, Config: fx.cfg, key: fx.qname, eng: fx.eng}
	if fx.con != nil {
		o.Props = propsFor(fx.con.Props, kind)
	}
	if goal.S == "true" {
		o.trivial = true
		o.Status = "discharged"
		o.Backend = "syntactic"
	} else {
		o.query = fx.buildQuery(st.hypTerms(), goal)
		if d := os.Getenv("GOVC_DUMP"); d != "" && strings.Contains(name, d) {
			dumpN++
			os.WriteFile(fmt.Sprintf("/tmp/govc-dump-%d.smt2", dumpN), []byte(o.query+"(check-sat)\n"), 0o644)
			fmt.Printf("dumped %s -> /tmp/govc-dump-%d.smt2\n", name, dumpN)
		}
	}
	fx.obls = append(fx.obls, o)
}

func shortPos(p token.Position) string {
	f := p.Filename
	f = strings.TrimPrefix(f, "/repo/")
	return fmt.Sprintf("%s:%d", f, p.Line)
}

// quick synchronous check used by Houdini and feasibility tests.
func (fx *FuncCtx) proves(hyps []Term, goal Term, timeoutMs int) bool {
	if goal.S == "true" {
		return true
	}
	q := fx.buildQuery(hyps, goal)
	r := solve(q, timeoutMs, false)
	return r.Status == "unsat"
}

func (fx *FuncCtx) infeasible(st *State) bool {
	return fx.proves(st.hypTerms(), tFalse, 2000)
}

// ---------------------------------------------------------------------------
// fresh / zero values of a Go type

func (fx *FuncCtx) sortOf(t types.Type) Sort {
	s := scalarSort(t)
	if s == "" {
		fx.unsupportedf("no scalar sort for type %s", t)
	}
	return s
}

var ridSignFact = regexp.MustCompile(`^\(>= \S+\$rid 0\)$`)

// freshValAny is freshVal without the assumption that slices live in caller-made regions
// (region id >= 0): a loop-carried local or a callee's result may hold a slice of a region
// allocated during this call (negative id). Assuming >= 0 there made such paths contradictory
// (Romberg swaps two halves of a fresh work slice in a loop; reported by a contract-writing agent).
func (fx *FuncCtx) freshValAny(base string, t types.Type) (Val, []Term) {
	v, facts := fx.freshVal(base, t)
	out := facts[:0]
	for _, f := range facts {
		if !ridSignFact.MatchString(f.S) {
			out = append(out, f)
		}
	}
	return v, out
}

// freshVal makes an unconstrained value of type t, with its typing facts.
func (fx *FuncCtx) freshVal(base string, t types.Type) (Val, []Term) {
	var facts []Term
	switch u := t.Underlying().(type) {
	case *types.Basic:
		if k, ok := intInfo(t); ok {
			c := fx.freshConst(base, SInt)
			return c, []Term{k.rangeOf(c)}
		}
		if u.Info()&types.IsString != 0 {
			id := fx.freshConst(base+"$str", SStr)
			ln := fx.freshConst(base+"$len", SInt)
			fx.declFun("strlen", []Sort{SStr}, SInt)
			return StrV{ID: id, Len: ln}, []Term{Ge(ln, IntLit(0)), Eq(ln, app(SInt, "strlen", id))}
		}
		return fx.freshConst(base, fx.sortOf(t)), nil
	case *types.Slice:
		n := fx.freshName(base)
		sv := SliceV{Rid: fx.declConst(n+"$rid", SInt), Off: fx.declConst(n+"$off", SInt), Len: fx.declConst(n+"$len", SInt), Cap: fx.declConst(n+"$cap", SInt), Elem: u.Elem()}
		facts = append(facts, Ge(sv.Rid, IntLit(0)), Ge(sv.Off, IntLit(0)), Ge(sv.Len, IntLit(0)), Le(sv.Len, sv.Cap), Lt(sv.Cap, capBound(u.Elem())),
			Implies(Eq(sv.Rid, IntLit(0)), Eq(sv.Cap, IntLit(0))))
		return sv, facts
	case *types.Struct:
		sv := StructV{T: t}
		for i := 0; i < u.NumFields(); i++ {
			f := u.Field(i)
			v, fs := fx.freshVal(base+"."+f.Name(), f.Type())
			sv.Fields = append(sv.Fields, v)
			facts = append(facts, fs...)
		}
		return sv, facts
	case *types.Array:
		es := scalarSort(u.Elem())
		if es == "" {
			fx.unsupportedf("array of non-scalar %s", t)
		}
		return ArrayV{T: u, Arr: fx.freshConst(base, ArraySort(SInt, es))}, nil
	case *types.Pointer:
		c := fx.freshConst(base, SInt)
		return PtrV{Ref: c, Elem: u.Elem()}, []Term{Ge(c, IntLit(0))}
	case *types.Map:
		c := fx.freshConst(base, SInt)
		return MapV{Ref: c, T: u}, []Term{Ge(c, IntLit(0))}
	case *types.Interface:
		return IfaceV{T: fx.freshConst(base, SIfc), GT: t}, nil
	case *types.Signature:
		return FuncV{Name: base}, nil
	}
	fx.unsupportedf("fresh value of type %s", t)
	return nil, nil
}

func (fx *FuncCtx) zeroVal(t types.Type) Val {
	switch u := t.Underlying().(type) {
	case *types.Basic:
		if _, ok := intInfo(t); ok {
			return IntLit(0)
		}
		if s, ok := isFloat(t); ok {
			return fx.floatConst(0, s)
		}
		if s, ok := isComplex(t); ok {
			return fx.complexZero(s)
		}
		if u.Info()&types.IsBoolean != 0 {
			return tFalse
		}
		if u.Info()&types.IsString != 0 {
			return fx.strLit("")
		}
	case *types.Slice:
		return SliceV{Rid: IntLit(0), Off: IntLit(0), Len: IntLit(0), Cap: IntLit(0), Elem: u.Elem()}
	case *types.Struct:
		sv := StructV{T: t}
		for i := 0; i < u.NumFields(); i++ {
			sv.Fields = append(sv.Fields, fx.zeroVal(u.Field(i).Type()))
		}
		return sv
	case *types.Array:
		es := scalarSort(u.Elem())
		if es == "" {
			fx.unsupportedf("array of non-scalar %s", t)
		}
		z := fx.zeroVal(u.Elem()).(Term)
		return ArrayV{T: u, Arr: fx.constArray(es, z)}
	case *types.Pointer:
		return PtrV{Ref: IntLit(0), Elem: u.Elem()}
	case *types.Map:
		return MapV{Ref: IntLit(0), T: u}
	case *types.Interface:
		fx.declare("(declare-const nilIface Iface)")
		return IfaceV{T: Term{"nilIface", SIfc}, GT: t}
	case *types.Signature:
		return FuncV{Name: "nil"}
	}
	fx.unsupportedf("zero value of type %s", t)
	return nil
}

func (fx *FuncCtx) floatConst(v float64, s Sort) Term {
	if s == SF32 {
		if fx.real {
			return realLit(float64(float32(v)), s)
		}
		t, d := f32Lit(float32(v), fx.ieee)
		if d != "" {
			fx.declare(d)
		}
		return t
	}
	if fx.real {
		return realLit(v, s)
	}
	t, d := f64Lit(v, fx.ieee)
	if d != "" {
		fx.declare(d)
	}
	return t
}

func (fx *FuncCtx) complexZero(s Sort) Term {
	name := "czero_" + string(s)
	fx.declare(fmt.Sprintf("(declare-const %s %s)", name, s))
	return Term{name, s}
}

func (fx *FuncCtx) strLit(s string) StrV {
	id := fx.eng.strConst(s)
	fx.declare(fmt.Sprintf("(declare-const %s Str)", id))
	lit := s
	return StrV{ID: Term{id, SStr}, Len: IntLit(int64(len(s))), Lit: &lit}
}

var skPrefixRe = regexp.MustCompile(`ske?![0-9!]*q_`)

// hasBoundVar: does the term mention a quantifier-bound variable (named q_*)?
// Skolem constants (sk!q_*, ske!N!q_*) do not count.
func hasBoundVar(g string) bool {
	return strings.Contains(skPrefixRe.ReplaceAllString(g, "SK_"), "q_")
}

// implementsFacts: for every interface used in a type assertion and every
// concrete type that has been given a type id, whether the type implements
// the interface (decided by go/types).
func (fx *FuncCtx) implementsFacts() string {
	if len(fx.implIfaces) == 0 {
		return ""
	}
	var b strings.Builder
	names := make([]string, 0, len(fx.implIfaces))
	for n := range fx.implIfaces {
		names = append(names, n)
	}
	sort.Strings(names)
	fx.eng.mu.Lock()
	type kv struct {
		t  types.Type
		id int64
	}
	var ts []kv
	for _, t := range fx.eng.typeObjs {
		ts = append(ts, kv{t, fx.eng.typeIDs[types.TypeString(t, nil)]})
	}
	fx.eng.mu.Unlock()
	sort.Slice(ts, func(i, j int) bool { return ts[i].id < ts[j].id })
	for _, n := range names {
		iface, ok := fx.implIfaces[n].Underlying().(*types.Interface)
		if !ok {
			continue
		}
		for _, t := range ts {
			v := "false"
			if types.Implements(t.t, iface) {
				v = "true"
			}
			fmt.Fprintf(&b, "(assert (= (%s %d) %s))\n", n, t.id, v)
		}
	}
	return b.String()
}

// capBound: capacity limit implied by the maximal allocation size.
func capBound(elem types.Type) Term {
	size := int64(1)
	if b, ok := elem.Underlying().(*types.Basic); ok {
		switch b.Kind() {
		case types.Int, types.Int64, types.Uint, types.Uint64, types.Uintptr, types.Float64, types.Complex64:
			size = 8
		case types.Int32, types.Uint32, types.Float32:
			size = 4
		case types.Int16, types.Uint16:
			size = 2
		case types.Complex128:
			size = 16
		}
	}
	// no allocation exceeds 2^56 bytes (the Go runtime's limit on 64-bit targets is 2^47-2^48)
	switch {
	case size >= 16:
		return Pow2(52)
	case size >= 8:
		return Pow2(53)
	case size >= 4:
		return Pow2(54)
	case size >= 2:
		return Pow2(55)
	}
	return Pow2(56)
}
