package main

// Pointers, interfaces, composite literals, maps, type invariants.

import (
	"fmt"
	"go/ast"
	"go/token"
	"go/types"
)

const tokenLSS = token.LSS

type poisonState struct{}

func (fx *FuncCtx) setupPoison(st *State, env *specEnv)                        {}
func (fx *FuncCtx) checkPoison(st *State, sv SliceV, idx Term, node ast.Node)  {}
func (fx *FuncCtx) clearPoison(st *State, sv SliceV, idx Term)                 {}
func (fx *FuncCtx) runDeferred()                                               {}
func (fx *FuncCtx) assumeTypeInvariants(st *State, env *specEnv)               {}
func (fx *FuncCtx) checkTypeInvariants(st *State, env *specEnv, node ast.Node) {}

func (fx *FuncCtx) evalAddrOf(st *State, x *ast.UnaryExpr) Val {
	inner := unparen(x.X)
	switch e := inner.(type) {
	case *ast.CompositeLit:
		t := fx.typeOf(e)
		v := fx.evalCompositeLit(st, e)
		ref := fx.allocRef(st, "lit")
		fx.storeHeap(st, heapPrefix(t), ref, t, v)
		return PtrV{Ref: ref, Elem: t}
	case *ast.Ident:
		obj := fx.info.ObjectOf(e)
		if hv, ok := st.vars[obj].(heapVar); ok {
			return PtrV{Ref: hv.ref, Elem: obj.Type()}
		}
	}
	fx.unsupportedf("address-of %s", fx.src(x))
	return nil
}

func (fx *FuncCtx) addressOf(st *State, e ast.Expr, v Val, t types.Type) Val {
	if id, ok := unparen(e).(*ast.Ident); ok {
		obj := fx.info.ObjectOf(id)
		if hv, ok := st.vars[obj].(heapVar); ok {
			return PtrV{Ref: hv.ref, Elem: obj.Type()}
		}
	}
	// field of a pointed-to struct: p.f where f is a struct value — address is (prefix, ref)
	if sel, ok := unparen(e).(*ast.SelectorExpr); ok {
		if s := fx.info.Selections[sel]; s != nil && s.Kind() == types.FieldVal {
			base := fx.eval(st, sel.X)
			if p, ok := base.(PtrV); ok && len(s.Index()) == 1 {
				// embedded value: model as a sub-object reference sharing the parent's ref with an extended prefix
				f := p.Elem.Underlying().(*types.Struct).Field(s.Index()[0])
				return PtrV{Ref: p.Ref, Elem: f.Type(), Prefix: heapPrefix(p.Elem) + "." + f.Name()}
			}
		}
	}
	fx.unsupportedf("implicit address-of %s", fx.src(e))
	return nil
}

func (fx *FuncCtx) box(st *State, v Val, from types.Type) Val {
	if from == nil {
		fx.unsupportedf("boxing value of unknown type")
	}
	if iv, ok := v.(IfaceV); ok {
		return iv
	}
	t, ok := unwrapScalar(v)
	tname := smtName(types.TypeString(from, func(p *types.Package) string { return p.Name() }))
	if ok {
		fn := "box_" + tname
		fx.declFun(fn, []Sort{t.Sort}, SIfc)
		fx.declFun("unbox_"+tname, []Sort{SIfc}, t.Sort)
		fx.declFun("typeOf", []Sort{SIfc}, SInt)
		b := app(SIfc, fn, t)
		if st != nil {
			st.assume(Eq(app(t.Sort, "unbox_"+tname, b), t))
			st.assume(Eq(app(SInt, "typeOf", b), IntLit(fx.eng.typeID(from))))
			fx.declare("(declare-const nilIface Iface)")
			st.assume(Not(Eq(b, Term{"nilIface", SIfc})))
		}
		return IfaceV{T: b, GT: from}
	}
	// non-scalar dynamic values (strings, structs): opaque box
	c := fx.freshConst("boxed_"+tname, SIfc)
	fx.declFun("typeOf", []Sort{SIfc}, SInt)
	if st != nil {
		st.assume(Eq(app(SInt, "typeOf", c), IntLit(fx.eng.typeID(from))))
		fx.declare("(declare-const nilIface Iface)")
		st.assume(Not(Eq(c, Term{"nilIface", SIfc})))
	}
	return IfaceV{T: c, GT: from}
}

func (e *Engine) typeID(t types.Type) int64 {
	e.mu.Lock()
	defer e.mu.Unlock()
	if e.typeIDs == nil {
		e.typeIDs = map[string]int64{}
	}
	k := types.TypeString(t, nil)
	if id, ok := e.typeIDs[k]; ok {
		return id
	}
	id := int64(len(e.typeIDs) + 1)
	e.typeIDs[k] = id
	return id
}

func (fx *FuncCtx) evalTypeAssert(st *State, x *ast.TypeAssertExpr, commaOk bool) Val {
	if x.Type == nil {
		fx.unsupportedf("type switch guard outside switch")
	}
	v := fx.eval(st, x.X)
	iv, ok := v.(IfaceV)
	if !ok {
		fx.unsupportedf("type assertion on %s", valString(v))
	}
	to := fx.typeOf(x.Type)
	okT, val := fx.assertTo(st, iv, to)
	if commaOk {
		return TupleV{val, okT}
	}
	fx.oblige(st, "assert", okT, x, "")
	st.assume(okT)
	return val
}

// assertTo returns the condition under which iv has dynamic type `to` and the value.
func (fx *FuncCtx) assertTo(st *State, iv IfaceV, to types.Type) (Term, Val) {
	fx.declFun("typeOf", []Sort{SIfc}, SInt)
	if _, isIface := to.Underlying().(*types.Interface); isIface {
		// interface-to-interface assertion: implements(typeOf(x), iface)
		name := "implements_" + smtName(types.TypeString(to, func(p *types.Package) string { return p.Name() }))
		fx.declFun(name, []Sort{SInt}, SBool)
		c := app(SBool, name, app(SInt, "typeOf", iv.T))
		fx.declare("(declare-const nilIface Iface)")
		return And(c, Not(Eq(iv.T, Term{"nilIface", SIfc}))), IfaceV{T: iv.T, GT: to}
	}
	tname := smtName(types.TypeString(to, func(p *types.Package) string { return p.Name() }))
	c := Eq(app(SInt, "typeOf", iv.T), IntLit(fx.eng.typeID(to)))
	s := scalarSort(to)
	if s == "" {
		// struct / string dynamic types: opaque
		v, facts := fx.freshVal("unboxed_"+tname, to)
		for _, f := range facts {
			st.assume(f)
		}
		return c, v
	}
	fx.declFun("unbox_"+tname, []Sort{SIfc}, s)
	u := app(s, "unbox_"+tname, iv.T)
	if _, isPtr := to.Underlying().(*types.Pointer); isPtr {
		st.assume(Implies(c, Gt(u, IntLit(0))))
	}
	return c, fx.wrapElem(u, to)
}

func (fx *FuncCtx) execTypeSwitch(st *State, x *ast.TypeSwitchStmt) Flow {
	var fl Flow
	if x.Init != nil {
		r := fx.execStmt(st, x.Init)
		fl.absorb(r)
		if r.normal == nil {
			return fl
		}
		st = r.normal
	}
	var ta *ast.TypeAssertExpr
	var bindName *ast.Ident
	switch a := x.Assign.(type) {
	case *ast.ExprStmt:
		ta = unparen(a.X).(*ast.TypeAssertExpr)
	case *ast.AssignStmt:
		ta = unparen(a.Rhs[0]).(*ast.TypeAssertExpr)
		bindName = a.Lhs[0].(*ast.Ident)
	}
	v := fx.eval(st, ta.X)
	iv, ok := v.(IfaceV)
	if !ok {
		fx.unsupportedf("type switch on %s", valString(v))
	}
	fx.declare("(declare-const nilIface Iface)")
	var outs []*State
	rest := st.clone()
	var def *ast.CaseClause
	for _, cs := range x.Body.List {
		cc := cs.(*ast.CaseClause)
		if cc.List == nil {
			def = cc
			continue
		}
		var conds []Term
		var single Val
		for _, te := range cc.List {
			if id, ok := te.(*ast.Ident); ok && id.Name == "nil" {
				conds = append(conds, Eq(iv.T, Term{"nilIface", SIfc}))
				continue
			}
			tt := fx.typeOf(te)
			c, val := fx.assertTo(rest, iv, tt)
			conds = append(conds, c)
			single = val
		}
		c := fx.defineBool("ts", Or(conds...))
		s1 := rest.clone()
		s1.branch(c)
		if bindName != nil {
			if obj := fx.info.Implicits[cc]; obj != nil {
				if len(cc.List) == 1 && single != nil {
					fx.bind(s1, obj, single)
				} else {
					fx.bind(s1, obj, iv)
				}
			}
		}
		r := fx.execCaseBody(s1, cc.Body)
		fl.absorb(r.fl)
		outs = append(outs, r.outs...)
		rest.branch(Not(c))
	}
	if def != nil {
		if bindName != nil {
			if obj := fx.info.Implicits[def]; obj != nil {
				fx.bind(rest, obj, iv)
			}
		}
		r := fx.execCaseBody(rest, def.Body)
		fl.absorb(r.fl)
		outs = append(outs, r.outs...)
	} else {
		outs = append(outs, rest)
	}
	fl.normal = fx.mergeStates(st, outs)
	return fl
}

func (fx *FuncCtx) evalCompositeLit(st *State, x *ast.CompositeLit) Val {
	t := fx.typeOf(x)
	switch u := t.Underlying().(type) {
	case *types.Struct:
		sv := StructV{T: t}
		for i := 0; i < u.NumFields(); i++ {
			sv.Fields = append(sv.Fields, fx.zeroVal(u.Field(i).Type()))
		}
		for i, el := range x.Elts {
			if kv, ok := el.(*ast.KeyValueExpr); ok {
				name := kv.Key.(*ast.Ident).Name
				idx, _ := fx.fieldIndex(t, name)
				v := fx.eval(st, kv.Value)
				sv.Fields[idx] = fx.coerce(st, v, fx.info.Types[kv.Value].Type, u.Field(idx).Type())
			} else {
				v := fx.eval(st, el)
				sv.Fields[i] = fx.coerce(st, v, fx.info.Types[el].Type, u.Field(i).Type())
			}
		}
		return sv
	case *types.Slice:
		n := int64(0)
		type ent struct {
			idx int64
			e   ast.Expr
		}
		var ents []ent
		cur := int64(0)
		for _, el := range x.Elts {
			if kv, ok := el.(*ast.KeyValueExpr); ok {
				if tv, ok := fx.info.Types[kv.Key]; ok && tv.Value != nil {
					k, _ := isIntLit(fx.constVal(tv.Value, types.Typ[types.Int]).(Term))
					cur = k
				}
				ents = append(ents, ent{cur, kv.Value})
			} else {
				ents = append(ents, ent{cur, el})
			}
			cur++
			if cur > n {
				n = cur
			}
		}
		rid := fx.allocRegion(st)
		sv := SliceV{Rid: rid, Off: IntLit(0), Len: IntLit(n), Cap: IntLit(n), Elem: u.Elem()}
		fx.zeroRegion(st, sv)
		for _, en := range ents {
			v := fx.eval(st, en.e)
			fx.memWrite(st, sv, IntLit(en.idx), fx.coerce(st, v, fx.info.Types[en.e].Type, u.Elem()))
		}
		return sv
	case *types.Array:
		av := fx.zeroVal(t).(ArrayV)
		cur := int64(0)
		for _, el := range x.Elts {
			e := el
			if kv, ok := el.(*ast.KeyValueExpr); ok {
				if tv, ok := fx.info.Types[kv.Key]; ok && tv.Value != nil {
					k, _ := isIntLit(fx.constVal(tv.Value, types.Typ[types.Int]).(Term))
					cur = k
				}
				e = kv.Value
			}
			v, ok := unwrapScalar(fx.eval(st, e))
			if !ok {
				fx.unsupportedf("array literal of non-scalars")
			}
			av.Arr = Store(av.Arr, IntLit(cur), v)
			cur++
		}
		av.Arr = fx.define("arrlit", av.Arr)
		return av
	case *types.Map:
		ref := fx.allocRef(st, "map")
		mv := MapV{Ref: ref, T: u}
		fx.mapInitEmpty(st, mv)
		for _, el := range x.Elts {
			kv := el.(*ast.KeyValueExpr)
			fx.mapStore(st, mv, fx.eval(st, kv.Key), fx.eval(st, kv.Value), x)
		}
		return mv
	}
	fx.unsupportedf("composite literal of %s", t)
	return nil
}

// implFor maps the BLAS / LAPACK interface packages to their default
// implementation packages (assumption A10).
var implFor = map[string]string{
	"gonum.org/v1/gonum/blas":   "gonum.org/v1/gonum/blas/gonum",
	"gonum.org/v1/gonum/lapack": "gonum.org/v1/gonum/lapack/gonum",
}

func (fx *FuncCtx) callInterface(st *State, sel *ast.SelectorExpr, s *types.Selection, call *ast.CallExpr) Val {
	recvT := s.Recv()
	if p, ok := recvT.(*types.Pointer); ok {
		recvT = p.Elem()
	}
	if named, ok := recvT.(*types.Named); ok && named.Obj().Pkg() != nil {
		if target, ok := implFor[named.Obj().Pkg().Path()]; ok {
			pi := fx.eng.pkgs[target]
			if pi == nil {
				fx.unsupportedf("implementation package %s not loaded", target)
			}
			obj := pi.pkg.Types.Scope().Lookup("Implementation")
			if obj == nil {
				fx.unsupportedf("no Implementation type in %s", target)
			}
			m, _, _ := types.LookupFieldOrMethod(obj.Type(), true, pi.pkg.Types, s.Obj().Name())
			callee, ok := m.(*types.Func)
			if !ok {
				fx.unsupportedf("no method %s on %s.Implementation", s.Obj().Name(), target)
			}
			fx.eval(st, sel.X) // receiver expression (no effects expected)
			recv := fx.zeroVal(obj.Type())
			sig := callee.Type().(*types.Signature)
			args := fx.evalArgs(st, sig, call)
			qn := funcQName(callee)
			if con := fx.eng.contractFor(qn); con != nil && !con.Inline {
				return fx.applyContract(st, con, callee, recv, sig.Recv().Type(), args, call)
			}
			if fd, pkg := fx.eng.funcDecl(callee); fd != nil && fd.Body != nil {
				return fx.inlineCall(st, callee, fd, pkg, recv, args, call)
			}
			fx.unsupportedf("call to %s: no contract and no body", qn)
		}
	}
	fx.unsupportedf("interface method call %s", fx.src(call))
	return nil
}

func (fx *FuncCtx) specPureCall(env *specEnv, x *ast.CallExpr, name string) (sval, bool) {
	return sval{}, false
}

func (fx *FuncCtx) applyRecSpec(env *specEnv, sp *SpecFunc, x *ast.CallExpr) sval {
	fx.unsupportedf("recursive spec functions not implemented")
	return sval{}
}

func (fx *FuncCtx) applyModifies(st *State, env *specEnv, m Clause, call *ast.CallExpr) {
	fx.unsupportedf("modifies clauses not implemented")
}

func (fx *FuncCtx) checkModifies(st *State, p PtrV, field string, node ast.Node) {
	st.written = tTrue
}

// --- maps (M6) -----------------------------------------------------------------

func (fx *FuncCtx) mapLookup(st *State, m MapV, key Val) (Val, Term) {
	fx.unsupportedf("maps not implemented")
	return nil, tFalse
}
func (fx *FuncCtx) mapStore(st *State, m MapV, key, v Val, node ast.Node) {
	fx.unsupportedf("maps not implemented")
}
func (fx *FuncCtx) mapDelete(st *State, m MapV, key Val, node ast.Node) {
	fx.unsupportedf("maps not implemented")
}
func (fx *FuncCtx) mapLen(st *State, m MapV) Term {
	fx.unsupportedf("maps not implemented")
	return Term{}
}
func (fx *FuncCtx) mapInitEmpty(st *State, m MapV) { fx.unsupportedf("maps not implemented") }
func (fx *FuncCtx) execRangeMap(st *State, x *ast.RangeStmt, m MapV, label string) Flow {
	fx.unsupportedf("range over map not implemented")
	return Flow{}
}

var _ = fmt.Sprint
