package main

// Pointers, interfaces, composite literals, maps, type invariants.

import (
	"fmt"
	"go/ast"
	"go/token"
	"go/types"
	"strings"
)

const tokenLSS = token.LSS

type poisonState struct{}

func (fx *FuncCtx) setupPoison(st *State, env *specEnv)                        {}
func (fx *FuncCtx) checkPoison(st *State, sv SliceV, idx Term, node ast.Node)  {}
func (fx *FuncCtx) clearPoison(st *State, sv SliceV, idx Term)                 {}
func (fx *FuncCtx) runDeferred()                                               {}
func (fx *FuncCtx) assumeTypeInvariants(st *State, env *specEnv)               {}
func (fx *FuncCtx) checkTypeInvariants(st *State, env *specEnv, node ast.Node) {}

func (fx *FuncCtx) evalAddrOf(st *State, x *ast.UnaryExpr) Val {
	inner := unparen(x.X)
	switch e := inner.(type) {
	case *ast.CompositeLit:
		t := fx.typeOf(e)
		v := fx.evalCompositeLit(st, e)
		ref := fx.allocRef(st, "lit")
		fx.storeHeap(st, heapPrefix(t), ref, t, v)
		return PtrV{Ref: ref, Elem: t}
	case *ast.Ident:
		obj := fx.info.ObjectOf(e)
		if hv, ok := st.vars[obj].(heapVar); ok {
			return PtrV{Ref: hv.ref, Elem: obj.Type()}
		}
	}
	fx.unsupportedf("address-of %s", fx.src(x))
	return nil
}

func (fx *FuncCtx) addressOf(st *State, e ast.Expr, v Val, t types.Type) Val {
	if id, ok := unparen(e).(*ast.Ident); ok {
		obj := fx.info.ObjectOf(id)
		if hv, ok := st.vars[obj].(heapVar); ok {
			return PtrV{Ref: hv.ref, Elem: obj.Type()}
		}
	}
	// field of a pointed-to struct: p.f where f is a struct value — address is (prefix, ref)
	if sel, ok := unparen(e).(*ast.SelectorExpr); ok {
		if s := fx.info.Selections[sel]; s != nil && s.Kind() == types.FieldVal {
			base := fx.eval(st, sel.X)
			if p, ok := base.(PtrV); ok && len(s.Index()) == 1 {
				// embedded value: model as a sub-object reference sharing the parent's ref with an extended prefix
				f := p.Elem.Underlying().(*types.Struct).Field(s.Index()[0])
				return PtrV{Ref: p.Ref, Elem: f.Type(), Prefix: heapPrefix(p.Elem) + "." + f.Name()}
			}
		}
	}
	fx.unsupportedf("implicit address-of %s", fx.src(e))
	return nil
}

func (fx *FuncCtx) box(st *State, v Val, from types.Type) Val {
	if from == nil {
		fx.unsupportedf("boxing value of unknown type")
	}
	if iv, ok := v.(IfaceV); ok {
		return iv
	}
	t, ok := unwrapScalar(v)
	tname := smtName(types.TypeString(from, func(p *types.Package) string { return p.Name() }))
	if ok {
		fn := "box_" + tname
		fx.declFun(fn, []Sort{t.Sort}, SIfc)
		fx.declFun("unbox_"+tname, []Sort{SIfc}, t.Sort)
		fx.declFun("typeOf", []Sort{SIfc}, SInt)
		b := app(SIfc, fn, t)
		if st != nil {
			fx.linkPureMethods(st, b, v, from)
			st.assume(Eq(app(t.Sort, "unbox_"+tname, b), t))
			st.assume(Eq(app(SInt, "typeOf", b), IntLit(fx.eng.typeID(from))))
			fx.declare("(declare-const nilIface Iface)")
			st.assume(Not(Eq(b, Term{"nilIface", SIfc})))
		}
		return IfaceV{T: b, GT: from}
	}
	// non-scalar dynamic values (strings, structs): opaque box
	c := fx.freshConst("boxed_"+tname, SIfc)
	fx.declFun("typeOf", []Sort{SIfc}, SInt)
	if st != nil {
		fx.linkPureMethods(st, c, v, from)
		st.assume(Eq(app(SInt, "typeOf", c), IntLit(fx.eng.typeID(from))))
		fx.declare("(declare-const nilIface Iface)")
		st.assume(Not(Eq(c, Term{"nilIface", SIfc})))
	}
	return IfaceV{T: c, GT: from}
}

func (e *Engine) typeID(t types.Type) int64 {
	e.mu.Lock()
	defer e.mu.Unlock()
	if e.typeIDs == nil {
		e.typeIDs = map[string]int64{}
	}
	k := types.TypeString(t, nil)
	if id, ok := e.typeIDs[k]; ok {
		return id
	}
	id := int64(len(e.typeIDs) + 1)
	e.typeIDs[k] = id
	e.typeObjs = append(e.typeObjs, t)
	return id
}

func (fx *FuncCtx) evalTypeAssert(st *State, x *ast.TypeAssertExpr, commaOk bool) Val {
	if x.Type == nil {
		fx.unsupportedf("type switch guard outside switch")
	}
	v := fx.eval(st, x.X)
	iv, ok := v.(IfaceV)
	if !ok {
		fx.unsupportedf("type assertion on %s", valString(v))
	}
	to := fx.typeOf(x.Type)
	okT, val := fx.assertTo(st, iv, to)
	if commaOk {
		return TupleV{val, okT}
	}
	fx.oblige(st, "assert", okT, x, "")
	st.assume(okT)
	return val
}

// assertTo returns the condition under which iv has dynamic type `to` and the value.
func (fx *FuncCtx) assertTo(st *State, iv IfaceV, to types.Type) (Term, Val) {
	fx.declFun("typeOf", []Sort{SIfc}, SInt)
	if _, isIface := to.Underlying().(*types.Interface); isIface {
		// interface-to-interface assertion: implements(typeOf(x), iface)
		name := "implements_" + smtName(types.TypeString(to, func(p *types.Package) string { return p.Name() }))
		fx.declFun(name, []Sort{SInt}, SBool)
		if fx.implIfaces == nil {
			fx.implIfaces = map[string]types.Type{}
		}
		fx.implIfaces[name] = to
		c := app(SBool, name, app(SInt, "typeOf", iv.T))
		fx.declare("(declare-const nilIface Iface)")
		return And(c, Not(Eq(iv.T, Term{"nilIface", SIfc}))), IfaceV{T: iv.T, GT: to}
	}
	tname := smtName(types.TypeString(to, func(p *types.Package) string { return p.Name() }))
	c := Eq(app(SInt, "typeOf", iv.T), IntLit(fx.eng.typeID(to)))
	s := scalarSort(to)
	if s == "" {
		// struct / string dynamic types: opaque
		v, facts := fx.freshVal("unboxed_"+tname, to)
		for _, f := range facts {
			st.assume(f)
		}
		return c, v
	}
	fx.declFun("unbox_"+tname, []Sort{SIfc}, s)
	u := app(s, "unbox_"+tname, iv.T)
	if _, isPtr := to.Underlying().(*types.Pointer); isPtr {
		// (non-nil; not "> 0": the address of a local variable is a negative reference, and a local
		// boxed into an interface made the path contradictory: reported by a contract-writing agent)
		st.assume(Implies(c, Not(Eq(u, IntLit(0)))))
		// a pointer boxed in an interface PARAMETER refers to an object that existed at entry
		for _, pv := range fx.params {
			if piv, ok := pv.(IfaceV); ok && piv.T.S == iv.T.S {
				st.assume(Implies(c, Lt(u, Term{"alloc0", SInt})))
				break
			}
		}
	}
	return c, fx.wrapElem(u, to)
}

func (fx *FuncCtx) execTypeSwitch(st *State, x *ast.TypeSwitchStmt) Flow {
	var fl Flow
	if x.Init != nil {
		r := fx.execStmt(st, x.Init)
		fl.absorb(r)
		if r.normal == nil {
			return fl
		}
		st = r.normal
	}
	var ta *ast.TypeAssertExpr
	var bindName *ast.Ident
	switch a := x.Assign.(type) {
	case *ast.ExprStmt:
		ta = unparen(a.X).(*ast.TypeAssertExpr)
	case *ast.AssignStmt:
		ta = unparen(a.Rhs[0]).(*ast.TypeAssertExpr)
		bindName = a.Lhs[0].(*ast.Ident)
	}
	v := fx.eval(st, ta.X)
	iv, ok := v.(IfaceV)
	if !ok {
		fx.unsupportedf("type switch on %s", valString(v))
	}
	fx.declare("(declare-const nilIface Iface)")
	var outs []*State
	rest := st.clone()
	var def *ast.CaseClause
	for _, cs := range x.Body.List {
		cc := cs.(*ast.CaseClause)
		if cc.List == nil {
			def = cc
			continue
		}
		var conds []Term
		var single Val
		for _, te := range cc.List {
			if id, ok := te.(*ast.Ident); ok && id.Name == "nil" {
				conds = append(conds, Eq(iv.T, Term{"nilIface", SIfc}))
				continue
			}
			tt := fx.typeOf(te)
			c, val := fx.assertTo(rest, iv, tt)
			conds = append(conds, c)
			single = val
		}
		c := fx.defineBool("ts", Or(conds...))
		s1 := rest.clone()
		s1.branch(c)
		if bindName != nil {
			if obj := fx.info.Implicits[cc]; obj != nil {
				if len(cc.List) == 1 && single != nil {
					fx.bind(s1, obj, single)
				} else {
					fx.bind(s1, obj, iv)
				}
			}
		}
		r := fx.execCaseBody(s1, cc.Body)
		fl.absorb(r.fl)
		outs = append(outs, r.outs...)
		rest.branch(Not(c))
	}
	if def != nil {
		if bindName != nil {
			if obj := fx.info.Implicits[def]; obj != nil {
				fx.bind(rest, obj, iv)
			}
		}
		r := fx.execCaseBody(rest, def.Body)
		fl.absorb(r.fl)
		outs = append(outs, r.outs...)
	} else {
		outs = append(outs, rest)
	}
	fl.normal = fx.mergeStates(st, outs)
	return fl
}

func (fx *FuncCtx) evalCompositeLit(st *State, x *ast.CompositeLit) Val {
	t := fx.typeOf(x)
	switch u := t.Underlying().(type) {
	case *types.Struct:
		sv := StructV{T: t}
		for i := 0; i < u.NumFields(); i++ {
			sv.Fields = append(sv.Fields, fx.zeroVal(u.Field(i).Type()))
		}
		for i, el := range x.Elts {
			if kv, ok := el.(*ast.KeyValueExpr); ok {
				name := kv.Key.(*ast.Ident).Name
				idx, _ := fx.fieldIndex(t, name)
				v := fx.eval(st, kv.Value)
				sv.Fields[idx] = fx.coerce(st, v, fx.info.Types[kv.Value].Type, u.Field(idx).Type())
			} else {
				v := fx.eval(st, el)
				sv.Fields[i] = fx.coerce(st, v, fx.info.Types[el].Type, u.Field(i).Type())
			}
		}
		return sv
	case *types.Slice:
		n := int64(0)
		type ent struct {
			idx int64
			e   ast.Expr
		}
		var ents []ent
		cur := int64(0)
		for _, el := range x.Elts {
			if kv, ok := el.(*ast.KeyValueExpr); ok {
				if tv, ok := fx.info.Types[kv.Key]; ok && tv.Value != nil {
					k, _ := isIntLit(fx.constVal(tv.Value, types.Typ[types.Int]).(Term))
					cur = k
				}
				ents = append(ents, ent{cur, kv.Value})
			} else {
				ents = append(ents, ent{cur, el})
			}
			cur++
			if cur > n {
				n = cur
			}
		}
		rid := fx.allocRegion(st)
		sv := SliceV{Rid: rid, Off: IntLit(0), Len: IntLit(n), Cap: IntLit(n), Elem: u.Elem()}
		fx.zeroRegion(st, sv)
		for _, en := range ents {
			v := fx.eval(st, en.e)
			fx.memWrite(st, sv, IntLit(en.idx), fx.coerce(st, v, fx.info.Types[en.e].Type, u.Elem()))
		}
		return sv
	case *types.Array:
		av := fx.zeroVal(t).(ArrayV)
		cur := int64(0)
		for _, el := range x.Elts {
			e := el
			if kv, ok := el.(*ast.KeyValueExpr); ok {
				if tv, ok := fx.info.Types[kv.Key]; ok && tv.Value != nil {
					k, _ := isIntLit(fx.constVal(tv.Value, types.Typ[types.Int]).(Term))
					cur = k
				}
				e = kv.Value
			}
			v, ok := unwrapScalar(fx.eval(st, e))
			if !ok {
				fx.unsupportedf("array literal of non-scalars")
			}
			av.Arr = Store(av.Arr, IntLit(cur), v)
			cur++
		}
		av.Arr = fx.define("arrlit", av.Arr)
		return av
	case *types.Map:
		ref := fx.allocRef(st, "map")
		mv := MapV{Ref: ref, T: u}
		fx.mapInitEmpty(st, mv)
		for _, el := range x.Elts {
			kv := el.(*ast.KeyValueExpr)
			fx.mapStore(st, mv, fx.eval(st, kv.Key), fx.eval(st, kv.Value), x)
		}
		return mv
	}
	fx.unsupportedf("composite literal of %s", t)
	return nil
}

// implFor maps the BLAS / LAPACK interface packages to their default
// implementation packages (assumption A10).
var implFor = map[string]string{
	"gonum.org/v1/gonum/blas":   "gonum.org/v1/gonum/blas/gonum",
	"gonum.org/v1/gonum/lapack": "gonum.org/v1/gonum/lapack/gonum",
}

func (fx *FuncCtx) callInterface(st *State, sel *ast.SelectorExpr, s *types.Selection, call *ast.CallExpr) Val {
	recvT := s.Recv()
	if p, ok := recvT.(*types.Pointer); ok {
		recvT = p.Elem()
	}
	if named, ok := recvT.(*types.Named); ok && named.Obj().Pkg() != nil {
		if target, ok := implFor[named.Obj().Pkg().Path()]; ok {
			pi := fx.eng.pkgs[target]
			if pi == nil {
				fx.unsupportedf("implementation package %s not loaded", target)
			}
			obj := pi.pkg.Types.Scope().Lookup("Implementation")
			if obj == nil {
				fx.unsupportedf("no Implementation type in %s", target)
			}
			m, _, _ := types.LookupFieldOrMethod(obj.Type(), true, pi.pkg.Types, s.Obj().Name())
			callee, ok := m.(*types.Func)
			if !ok {
				fx.unsupportedf("no method %s on %s.Implementation", s.Obj().Name(), target)
			}
			fx.eval(st, sel.X) // receiver expression (no effects expected)
			recv := fx.zeroVal(obj.Type())
			sig := callee.Type().(*types.Signature)
			args := fx.evalArgs(st, sig, call)
			qn := funcQName(callee)
			if con := fx.eng.contractFor(qn); con != nil && !con.Inline {
				return fx.applyContract(st, con, callee, recv, sig.Recv().Type(), args, call)
			}
			if fd, pkg := fx.eng.funcDecl(callee); fd != nil && fd.Body != nil {
				return fx.inlineCall(st, callee, fd, pkg, recv, args, call)
			}
			fx.unsupportedf("call to %s: no contract and no body", qn)
		}
	}
	// io.Reader.Read / io.Writer.Write: standard-library interface contracts (assumption A8)
	if named, ok := recvT.(*types.Named); ok && named.Obj().Pkg() != nil && named.Obj().Pkg().Path() == "io" {
		switch named.Obj().Name() + "." + s.Obj().Name() {
		case "Reader.Read", "ReadWriter.Read", "ReadCloser.Read":
			fx.eval(st, sel.X)
			buf, ok := fx.eval(st, call.Args[0]).(SliceV)
			if !ok {
				fx.unsupportedf("Read into non-slice")
			}
			n := fx.freshConst("nread", SInt)
			st.assume(And(Ge(n, IntLit(0)), Le(n, buf.Len)))
			fx.checkStoreRange(st, buf, IntLit(0), n, call)
			fx.havocRange(st, buf, IntLit(0), n)
			sig := s.Obj().Type().(*types.Signature)
			e, _ := fx.freshVal("read_err", sig.Results().At(1).Type())
			return TupleV{n, e}
		case "Writer.Write", "ReadWriter.Write":
			fx.eval(st, sel.X)
			buf, ok := fx.eval(st, call.Args[0]).(SliceV)
			if !ok {
				fx.unsupportedf("Write from non-slice")
			}
			n := fx.freshConst("nwritten", SInt)
			st.assume(And(Ge(n, IntLit(0)), Le(n, buf.Len)))
			sig := s.Obj().Type().(*types.Signature)
			e, _ := fx.freshVal("write_err", sig.Results().At(1).Type())
			return TupleV{n, e}
		}
	}
	// dynamic type fixed by the contract (hasType): static dispatch to the concrete method
	if v, ok := fx.dispatchKnownType(st, sel, s, call); ok {
		return v
	}
	// methods declared pure in a contract file: uninterpreted functions of the receiver
	if key, ok := fx.pureKey(s.Obj().(*types.Func), recvT); ok {
		recv, isI := fx.eval(st, sel.X).(IfaceV)
		if !isI {
			fx.unsupportedf("pure method call on %s", fx.src(sel.X))
		}
		fx.declare("(declare-const nilIface Iface)")
		fx.oblige(st, "nil", Not(Eq(recv.T, Term{"nilIface", SIfc})), call, "method call on nil interface "+fx.src(sel.X))
		sig := s.Obj().Type().(*types.Signature)
		var args []Term
		for _, a := range call.Args {
			args = append(args, fx.evalTerm(st, a))
		}
		return fx.pureApp(st, key, sig, recv.T, args)
	}
	fx.unsupportedf("interface method call %s", fx.src(call))
	return nil
}

// pureKey: is this interface method declared pure? Returns the function key.
func (fx *FuncCtx) pureKey(m *types.Func, recvT types.Type) (string, bool) {
	cands := []types.Type{recvT}
	if sig, ok := m.Type().(*types.Signature); ok && sig.Recv() != nil {
		cands = append(cands, sig.Recv().Type())
	}
	for _, t := range cands {
		if p, ok := t.(*types.Pointer); ok {
			t = p.Elem()
		}
		named, ok := t.(*types.Named)
		if !ok || named.Obj().Pkg() == nil {
			continue
		}
		key := named.Obj().Pkg().Path() + "." + named.Obj().Name() + "." + m.Name()
		if c := fx.eng.cs.Funcs[key]; c != nil && c.Pure {
			return key, true
		}
	}
	// any interface of the same package declaring the method pure (embedded interfaces)
	if m.Pkg() != nil {
		for k, c := range fx.eng.cs.Funcs {
			if c.Pure && strings.HasPrefix(k, m.Pkg().Path()+".") && strings.HasSuffix(k, "."+m.Name()) {
				return k, true
			}
		}
	}
	return "", false
}

func (fx *FuncCtx) pureApp(st *State, key string, sig *types.Signature, recv Term, args []Term) Val {
	// all interfaces embedding the method share one function symbol per method name and package
	i := strings.LastIndex(key, ".")
	j := strings.LastIndex(key[:i], ".")
	name := "pure_" + smtName(key[:j][strings.LastIndex(key[:j], "/")+1:]) + "_" + key[i+1:]
	sorts := []Sort{SIfc}
	all := []Term{recv}
	for _, a := range args {
		sorts = append(sorts, a.Sort)
		all = append(all, a)
	}
	if sig.Results().Len() == 0 {
		fx.unsupportedf("pure method %s must have a result", key)
	}
	mk := func(i int, fn string) Val {
		rt := sig.Results().At(i).Type()
		rs := fx.sortOf(rt)
		fx.declFun(fn, sorts, rs)
		r := app(rs, fn, all...)
		if k, ok := intInfo(rt); ok && st != nil && fx.inQuant == 0 {
			st.assume(k.rangeOf(r))
		}
		return fx.wrapElem(r, rt)
	}
	if sig.Results().Len() == 1 {
		return mk(0, name)
	}
	var out TupleV
	for i := 0; i < sig.Results().Len(); i++ {
		out = append(out, mk(i, fmt.Sprintf("%s_%d", name, i)))
	}
	return out
}

func (fx *FuncCtx) specPureCall(env *specEnv, x *ast.CallExpr, name string) (sval, bool) {
	sel, ok := x.Fun.(*ast.SelectorExpr)
	if !ok {
		return sval{}, false
	}
	var recv sval
	okRecv := func() (ok bool) {
		defer func() {
			if r := recover(); r != nil {
				if _, is := r.(unsupported); !is {
					panic(r)
				}
				ok = false
			}
		}()
		recv = fx.specEval(env, sel.X)
		return true
	}()
	if !okRecv {
		return sval{}, false
	}
	iv, isI := recv.v.(IfaceV)
	if !isI || iv.GT == nil {
		return sval{}, false
	}
	gt := iv.GT
	if recv.t != nil {
		if _, isIface := recv.t.Underlying().(*types.Interface); isIface {
			gt = recv.t
		}
	}
	obj, _, _ := types.LookupFieldOrMethod(gt, true, nil, sel.Sel.Name)
	m, ok := obj.(*types.Func)
	if !ok {
		return sval{}, false
	}
	key, ok := fx.pureKey(m, gt)
	if !ok {
		return sval{}, false
	}
	sig := m.Type().(*types.Signature)
	var args []Term
	for _, a := range x.Args {
		args = append(args, fx.specTerm(env, a))
	}
	st := env.cur
	v := fx.pureApp(st, key, sig, iv.T, args)
	return sval{v, sig.Results().At(0).Type()}, true
}

// modTarget is one location set of a modifies clause: heap arrays and the
// reference whose entries may change (all = every reference).
type modTarget struct {
	heaps []string
	sorts []Sort
	ref   Term
	all   bool
}

// modTargets evaluates a modifies expression in env (entry / pre-call state).
func (fx *FuncCtx) modTargets(env *specEnv, e ast.Expr) []modTarget {
	if call, ok := e.(*ast.CallExpr); ok {
		if id, ok := call.Fun.(*ast.Ident); ok && id.Name == "all" && len(call.Args) == 1 {
			ts := fx.modTargets(env, call.Args[0])
			for i := range ts {
				ts[i].all = true
			}
			return ts
		}
	}
	isField := false
	if call, ok := e.(*ast.CallExpr); ok {
		if id, ok := call.Fun.(*ast.Ident); ok && id.Name == "field" && len(call.Args) == 1 {
			e = call.Args[0]
			isField = true
		}
	}
	if sel, ok := e.(*ast.SelectorExpr); ok {
		// field of a pointed-to struct? (a map-typed field names the map object unless wrapped in field())
		base := fx.specEval(env, sel.X)
		if p, ok := base.v.(PtrV); ok {
			if path, _ := fx.fieldIndexDeep(p.Elem, sel.Sel.Name); path != nil {
				if _, isMap := fx.fieldType(p.Elem, path).Underlying().(*types.Map); isMap && !isField {
					goto general
				}
				prefix := p.prefix()
				t := types.Type(p.Elem)
				for _, i := range path {
					f := t.Underlying().(*types.Struct).Field(i)
					prefix += "." + f.Name()
					t = f.Type()
				}
				return []modTarget{fx.fieldTarget(env.cur, prefix, t, p.Ref)}
			}
		}
	}
general:
	v := fx.specEval(env, e)
	switch x := v.v.(type) {
	case MapV:
		ks, vs, hasVal := fx.mapSorts(x)
		key := mapHeapKey(x.T)
		t := modTarget{ref: x.Ref}
		t.heaps = append(t.heaps, key+"$dom", key+"$len")
		t.sorts = append(t.sorts, ArraySort(SInt, ArraySort(ks, SBool)), ArraySort(SInt, SInt))
		if hasVal {
			t.heaps = append(t.heaps, key+"$val")
			t.sorts = append(t.sorts, ArraySort(SInt, ArraySort(ks, vs)))
		}
		return []modTarget{t}
	case PtrV:
		// the whole object
		return []modTarget{fx.fieldTarget(env.cur, x.prefix(), x.Elem, x.Ref)}
	}
	fx.unsupportedf("modifies: cannot interpret %s", fx.specSrc(e))
	return nil
}

// fieldTarget lists the heap arrays holding a value of type t under prefix.
func (fx *FuncCtx) fieldTarget(st *State, prefix string, t types.Type, ref Term) modTarget {
	mt := modTarget{ref: ref}
	var walk func(prefix string, t types.Type)
	walk = func(prefix string, t types.Type) {
		switch u := t.Underlying().(type) {
		case *types.Struct:
			for i := 0; i < u.NumFields(); i++ {
				walk(prefix+"."+u.Field(i).Name(), u.Field(i).Type())
			}
		case *types.Slice:
			for _, s := range []string{"rid", "off", "len", "cap"} {
				mt.heaps = append(mt.heaps, prefix+"."+s)
				mt.sorts = append(mt.sorts, ArraySort(SInt, SInt))
			}
		case *types.Array:
			mt.heaps = append(mt.heaps, prefix)
			mt.sorts = append(mt.sorts, ArraySort(SInt, ArraySort(SInt, fx.elemSort(u.Elem()))))
		case *types.Signature:
		default:
			if b, ok := u.(*types.Basic); ok && b.Info()&types.IsString != 0 {
				mt.heaps = append(mt.heaps, prefix+".str")
				mt.sorts = append(mt.sorts, ArraySort(SInt, SStr))
				return
			}
			mt.heaps = append(mt.heaps, prefix)
			mt.sorts = append(mt.sorts, ArraySort(SInt, fx.sortOf(t)))
		}
	}
	walk(prefix, t)
	return mt
}

// applyModifies havocs the callee's declared heap footprint at a call site.
func (fx *FuncCtx) applyModifies(st *State, env *specEnv, m Clause, call *ast.CallExpr) {
	penv := *env
	penv.cur = env.old
	for _, t := range fx.modTargets(&penv, m.Expr) {
		for i, hname := range t.heaps {
			cur := fx.heapGet(st, hname, t.sorts[i])
			if t.all {
				st.heap[hname] = fx.freshConst(hname+"_mod", cur.Sort)
				continue
			}
			es := Sort(strings.TrimSuffix(strings.TrimPrefix(string(cur.Sort), "(Array Int "), ")"))
			fresh := fx.freshConst(hname+"_modv", es)
			st.heap[hname] = fx.define(hname, Store(cur, t.ref, fresh))
		}
	}
	st.written = tTrue
}

// checkHeapFrame: at an exit, heap objects that existed at entry and are not
// named by a modifies clause are unchanged.
func (fx *FuncCtx) checkHeapFrame(ex *State, node ast.Node) {
	if fx.con == nil || fx.con.Options["heap-frame"] == "off" {
		return
	}
	env := &specEnv{fx: fx, cur: fx.entry, old: fx.entry, binds: map[string]sval{}, entryParams: true}
	allowed := map[string][]Term{}
	allAllowed := map[string]bool{}
	for _, m := range fx.con.Modifies {
		for _, t := range fx.modTargets(env, m.Expr) {
			for _, hname := range t.heaps {
				if t.all {
					allAllowed[hname] = true
				} else {
					allowed[hname] = append(allowed[hname], t.ref)
				}
			}
		}
	}
	for _, hname := range sortedKeys(ex.heap) {
		if !(strings.HasPrefix(hname, "H_") || strings.HasPrefix(hname, "M_") || strings.HasPrefix(hname, "S_")) {
			continue
		}
		cur := ex.heap[hname]
		if cur.S == hname || allAllowed[hname] {
			continue // untouched (still the entry constant)
		}
		if _, declared := fx.declSet[fmt.Sprintf("(declare-const %s %s)", hname, cur.Sort)]; !declared {
			continue
		}
		r := fx.freshName("q_r")
		var ex2 []string
		for _, a := range allowed[hname] {
			ex2 = append(ex2, fmt.Sprintf("(not (= %s %s))", r, a.S))
		}
		guard := fmt.Sprintf("(and (> %s 0) (< %s alloc0) %s)", r, r, strings.Join(ex2, " "))
		goal := Term{fmt.Sprintf("(forall ((%s Int)) (=> %s (= (select %s %s) (select %s %s))))", r, guard, cur.S, r, hname, r), SBool}
		fx.oblige(ex, "modifies", goal, node, "only declared heap objects change: "+hname)
	}
}

func (fx *FuncCtx) checkModifies(st *State, p PtrV, field string, node ast.Node) {
	st.written = tTrue
}

// --- maps -----------------------------------------------------------------------
//
// A map value is a reference (0 = nil). Per Go map type three heap arrays:
//   M_T#dom : ref -> (key -> Bool)      M_T#val : ref -> (key -> V)      M_T#len : ref -> Int
// Keys and values are scalars (integers, floats, references, interfaces); a
// struct{} value has no val array.

func (fx *FuncCtx) mapSorts(m MapV) (ks, vs Sort, hasVal bool) {
	ks = scalarSort(m.T.Key())
	if ks == "" {
		fx.unsupportedf("map key type %s", m.T.Key())
	}
	if st, ok := m.T.Elem().Underlying().(*types.Struct); ok && st.NumFields() == 0 {
		return ks, "", false
	}
	vs = scalarSort(m.T.Elem())
	if vs == "" {
		fx.unsupportedf("map value type %s", m.T.Elem())
	}
	return ks, vs, true
}

func (fx *FuncCtx) mapKeyTerm(key Val) Term {
	t, ok := unwrapScalar(key)
	if !ok {
		fx.unsupportedf("map key %s", valString(key))
	}
	return t
}

func (fx *FuncCtx) mapHeaps(st *State, m MapV) (dom, val, ln Term, key string) {
	ks, vs, hasVal := fx.mapSorts(m)
	key = mapHeapKey(m.T)
	dom = fx.heapGet(st, key+"$dom", ArraySort(SInt, ArraySort(ks, SBool)))
	if hasVal {
		val = fx.heapGet(st, key+"$val", ArraySort(SInt, ArraySort(ks, vs)))
		if vs == SInt {
			if _, isInt := intInfo(m.T.Elem()); !isInt {
				fx.heapRefAxiom(key+"$val", ks)
			}
		}
	}
	ln = fx.heapGet(st, key+"$len", ArraySort(SInt, SInt))
	return
}

// heapRefAxiom: every reference stored in the entry heap denotes an object
// allocated before entry (or nil).
func (fx *FuncCtx) heapRefAxiom(name string, keySort Sort) {
	tag := "refaxiom:" + name
	if fx.declSet[tag] {
		return
	}
	fx.declSet[tag] = true
	if keySort == "" {
		fx.globalFacts = append(fx.globalFacts, Term{fmt.Sprintf("(forall ((q_hr Int)) (=> (and (< 0 q_hr) (< q_hr alloc0)) (and (<= 0 (select %s q_hr)) (< (select %s q_hr) alloc0))))", name, name), SBool})
		return
	}
	fx.globalFacts = append(fx.globalFacts, Term{fmt.Sprintf("(forall ((q_hr Int) (q_hk %s)) (=> (and (< 0 q_hr) (< q_hr alloc0)) (and (<= 0 (select (select %s q_hr) q_hk)) (< (select (select %s q_hr) q_hk) alloc0))))", keySort, name, name), SBool})
}

// mapHas: key present (false for the nil map).
func (fx *FuncCtx) mapHas(st *State, m MapV, k Term) Term {
	ks, _, _ := fx.mapSorts(m)
	dom, _, _, _ := fx.mapHeaps(st, m)
	return And(Not(Eq(m.Ref, IntLit(0))), Select(Select(dom, m.Ref, ArraySort(ks, SBool)), k, SBool))
}

func (fx *FuncCtx) mapLookup(st *State, m MapV, key Val) (Val, Term) {
	k := fx.mapKeyTerm(key)
	ks, vs, hasVal := fx.mapSorts(m)
	ok := fx.mapHas(st, m, k)
	if fx.inQuant == 0 {
		ok = fx.defineBool("mhas", ok)
	}
	if !hasVal {
		return StructV{T: m.T.Elem()}, ok
	}
	_, val, _, _ := fx.mapHeaps(st, m)
	raw := Select(Select(val, m.Ref, ArraySort(ks, vs)), k, vs)
	z, _ := unwrapScalar(fx.zeroVal(m.T.Elem()))
	v := Ite(ok, raw, z)
	if k2, isInt := intInfo(m.T.Elem()); isInt && fx.inQuant == 0 {
		st.assume(k2.rangeOf(v))
	}
	if vs == SInt && fx.inQuant == 0 {
		if _, isInt := intInfo(m.T.Elem()); !isInt {
			fx.refFact(st, v)
		}
	}
	return fx.wrapElem(v, m.T.Elem()), ok
}

func (fx *FuncCtx) mapStore(st *State, m MapV, key, v Val, node ast.Node) {
	k := fx.mapKeyTerm(key)
	ks, vs, hasVal := fx.mapSorts(m)
	fx.oblige(st, "nil", Not(Eq(m.Ref, IntLit(0))), node, "assignment to entry in nil map "+fx.src(node))
	dom, val, ln, hk := fx.mapHeaps(st, m)
	fx.checkMapModifies(st, m, node)
	row := Select(dom, m.Ref, ArraySort(ks, SBool))
	had := Select(row, k, SBool)
	st.heap[hk+"$len"] = fx.define(hk+"$len", Store(ln, m.Ref, Add(Select(ln, m.Ref, SInt), Ite(had, IntLit(0), IntLit(1)))))
	st.heap[hk+"$dom"] = fx.define(hk+"$dom", Store(dom, m.Ref, Store(row, k, tTrue)))
	if hasVal {
		if _, isNil := v.(NilV); isNil {
			v = fx.zeroVal(m.T.Elem())
		}
		tv, ok := unwrapScalar(v)
		if !ok {
			fx.unsupportedf("map value %s", valString(v))
		}
		vrow := Select(val, m.Ref, ArraySort(ks, vs))
		st.heap[hk+"$val"] = fx.define(hk+"$val", Store(val, m.Ref, Store(vrow, k, tv)))
	}
	st.written = tTrue
}

func (fx *FuncCtx) mapDelete(st *State, m MapV, key Val, node ast.Node) {
	k := fx.mapKeyTerm(key)
	ks, _, _ := fx.mapSorts(m)
	dom, _, ln, hk := fx.mapHeaps(st, m)
	fx.checkMapModifies(st, m, node)
	row := Select(dom, m.Ref, ArraySort(ks, SBool))
	had := Select(row, k, SBool)
	// delete on a nil map is a no-op: lookups guard with ref != 0, so updating index 0 is harmless
	st.heap[hk+"$len"] = fx.define(hk+"$len", Store(ln, m.Ref, Sub(Select(ln, m.Ref, SInt), Ite(had, IntLit(1), IntLit(0)))))
	st.heap[hk+"$dom"] = fx.define(hk+"$dom", Store(dom, m.Ref, Store(row, k, tFalse)))
	st.written = fx.define("written", Or(st.written, And(Not(Eq(m.Ref, IntLit(0))), had)))
}

func (fx *FuncCtx) mapLen(st *State, m MapV) Term {
	ks, _, _ := fx.mapSorts(m)
	dom, _, ln, _ := fx.mapHeaps(st, m)
	l := Ite(Eq(m.Ref, IntLit(0)), IntLit(0), Select(ln, m.Ref, SInt))
	if fx.inQuant == 0 {
		l = fx.define("maplen", l)
		q := fx.freshName("q_mk")
		row := Select(dom, m.Ref, ArraySort(ks, SBool))
		empty := Term{fmt.Sprintf("(forall ((%s %s)) (not (select %s %s)))", q, ks, row.S, q), SBool}
		st.assume(Ge(l, IntLit(0)))
		st.assume(Implies(Not(Eq(m.Ref, IntLit(0))), Eq(Eq(l, IntLit(0)), empty)))
	}
	return l
}

func (fx *FuncCtx) mapInitEmpty(st *State, m MapV) {
	ks, _, _ := fx.mapSorts(m)
	dom, _, ln, hk := fx.mapHeaps(st, m)
	empty := Term{fmt.Sprintf("((as const %s) false)", ArraySort(ks, SBool)), ArraySort(ks, SBool)}
	st.heap[hk+"$dom"] = fx.define(hk+"$dom", Store(dom, m.Ref, empty))
	st.heap[hk+"$len"] = fx.define(hk+"$len", Store(ln, m.Ref, IntLit(0)))
}

func (fx *FuncCtx) checkMapModifies(st *State, m MapV, node ast.Node) {}

// execRangeMap: each iteration takes a key that is present and not yet seen.
// The order is arbitrary; the body must not add keys to the ranged map (checked
// only through the final obligation that every present key was seen).
func (fx *FuncCtx) execRangeMap(st *State, x *ast.RangeStmt, m MapV, label string) Flow {
	ks, _, _ := fx.mapSorts(m)
	ord := fx.loopOrdinal(x)
	seenName := fmt.Sprintf("seen@L%d%s", ord, fx.inlineSuffix())
	seenSort := ArraySort(ks, SBool)
	hid := fx.hiddenVar(x, fmt.Sprintf("#m%d", ord))
	_ = hid
	// ghost: set of keys already visited, as a heap entry so that it is havocked by the loop
	st.heap[seenName] = Term{fmt.Sprintf("((as const %s) false)", seenSort), seenSort}
	ld := &loopDesc{node: x, label: label, body: x.Body}
	var curKey Term
	ld.condT = func(s *State) Term {
		// there is a key present and unseen: a fresh witness names it
		k := fx.freshConst(fmt.Sprintf("mk@L%d", ord), ks)
		curKey = k
		has := fx.mapHas(s, m, k)
		unseen := Not(Select(s.heap[seenName], k, SBool))
		// loop continues iff such a key exists; exit iff none: encode with the witness
		q := fx.freshName("q_mr")
		dom, _, _, _ := fx.mapHeaps(s, m)
		row := Select(dom, m.Ref, ArraySort(ks, SBool))
		none := Term{fmt.Sprintf("(forall ((%s %s)) (=> (select %s %s) (select %s %s)))", q, ks, row.S, q, s.heap[seenName].S, q), SBool}
		cont := fx.freshConst(fmt.Sprintf("mcont@L%d", ord), SBool)
		s.assume(Implies(cont, And(has, unseen)))
		s.assume(Implies(Not(cont), Or(Eq(m.Ref, IntLit(0)), none)))
		return cont
	}
	ld.prefix = func(s *State) {
		if x.Key != nil && !isBlank(x.Key) {
			kv := fx.wrapElem(curKey, m.T.Key())
			if x.Tok == token.DEFINE {
				fx.bind(s, fx.info.Defs[x.Key.(*ast.Ident)], kv)
			} else {
				fx.assignTo(s, x.Key, kv, fx.typeOf(x.Key))
			}
		}
		if x.Value != nil && !isBlank(x.Value) {
			v, _ := fx.mapLookup(s, m, curKey)
			if x.Tok == token.DEFINE {
				fx.bind(s, fx.info.Defs[x.Value.(*ast.Ident)], v)
			} else {
				fx.assignTo(s, x.Value, v, fx.typeOf(x.Value))
			}
		}
		s.heap[seenName] = fx.define(seenName, Store(s.heap[seenName], curKey, tTrue))
	}
	ld.postF = func(s *State) {}
	ld.ghostHeap = []string{seenName}
	fl := fx.execLoop(st, ld)
	if fl.normal != nil {
		delete(fl.normal.heap, seenName)
	}
	return fl
}

var _ = fmt.Sprint

// linkPureMethods: for a concrete value boxed into an interface, relate the
// pure interface methods to the concrete (parameterless, inlineable) methods.
func (fx *FuncCtx) linkPureMethods(st *State, boxed Term, v Val, from types.Type) {
	if fx.inQuant > 0 || fx.inlineDepth > 3 {
		return
	}
	named, ok := from.(*types.Named)
	if !ok || named.Obj().Pkg() == nil {
		return
	}
	for i := 0; i < named.NumMethods(); i++ {
		m := named.Method(i)
		sig := m.Type().(*types.Signature)
		if sig.Params().Len() != 0 || sig.Results().Len() != 1 {
			continue
		}
		// is there a pure interface method of that name?
		var key string
		for k, c := range fx.eng.cs.Funcs {
			if c.Pure && strings.HasSuffix(k, "."+m.Name()) {
				key = k
				break
			}
		}
		if key == "" {
			continue
		}
		fd, pkg := fx.eng.funcDecl(m)
		if fd == nil || fd.Body == nil || len(fd.Body.List) != 1 {
			continue
		}
		var res Val
		ok := func() (ok bool) {
			defer func() {
				if r := recover(); r != nil {
					if _, is := r.(unsupported); !is {
						panic(r)
					}
					ok = false
				}
			}()
			fx.discard++
			defer func() { fx.discard-- }()
			s2 := st.clone()
			res = fx.inlineCall(s2, m, fd, pkg, v, nil, nil)
			return true
		}()
		if !ok {
			continue
		}
		rt, ok := unwrapScalar(res)
		if !ok {
			continue
		}
		pv := fx.pureApp(st, key, sig, boxed, nil)
		pt, _ := unwrapScalar(pv)
		if pt.Sort == rt.Sort {
			st.assume(Eq(pt, rt))
		}
	}
}

// hintTypes: the concrete types named in hasType(...) clauses of the contract.
func (fx *FuncCtx) hintTypes() []types.Type {
	if fx.hintDone {
		return fx.hints
	}
	fx.hintDone = true
	if fx.con == nil {
		return nil
	}
	seen := map[string]bool{}
	var visit func(e ast.Expr)
	visit = func(e ast.Expr) {
		ast.Inspect(e, func(n ast.Node) bool {
			if c, ok := n.(*ast.CallExpr); ok {
				if id, ok := c.Fun.(*ast.Ident); ok && id.Name == "hasType" && len(c.Args) == 2 {
					func() {
						defer func() { recover() }()
						t := fx.specType(&specEnv{fx: fx}, c.Args[1])
						k := types.TypeString(t, nil)
						if !seen[k] {
							seen[k] = true
							fx.hints = append(fx.hints, t)
							fx.eng.typeID(t)
						}
					}()
				}
			}
			return true
		})
	}
	for _, r := range fx.con.Requires {
		visit(r.Expr)
	}
	if fx.con.Valid != nil {
		visit(fx.con.Valid.Expr)
	}
	return fx.hints
}

// dispatchKnownType: if the hypotheses fix the dynamic type of the receiver to
// one of the contract's hint types, call that type's method.
func (fx *FuncCtx) dispatchKnownType(st *State, sel *ast.SelectorExpr, s *types.Selection, call *ast.CallExpr) (Val, bool) {
	hints := fx.hintTypes()
	if len(hints) == 0 || fx.inlineDepth > 3 {
		return nil, false
	}
	rv := fx.eval(st, sel.X)
	iv, ok := rv.(IfaceV)
	if !ok {
		return nil, false
	}
	fx.declFun("typeOf", []Sort{SIfc}, SInt)
	for _, t := range hints {
		key := iv.T.S + "|" + types.TypeString(t, nil)
		known, cached := fx.dynKnown[key]
		if !cached {
			goal := Eq(app(SInt, "typeOf", iv.T), IntLit(fx.eng.typeID(t)))
			known = fx.proves(st.hypTerms(), goal, 2000)
			if fx.dynKnown == nil {
				fx.dynKnown = map[string]bool{}
			}
			fx.dynKnown[key] = known
		}
		if !known {
			continue
		}
		obj, _, _ := types.LookupFieldOrMethod(t, true, fx.pkg.Types, s.Obj().Name())
		m, ok := obj.(*types.Func)
		if !ok {
			continue
		}
		_, recv := fx.assertTo(st, iv, t)
		msig := m.Type().(*types.Signature)
		// receiver adaptation (pointer vs value)
		if _, wantPtr := msig.Recv().Type().Underlying().(*types.Pointer); !wantPtr {
			if p, isP := recv.(PtrV); isP {
				recv = fx.loadHeap(st, p.prefix(), p.Ref, p.Elem)
			}
		}
		args := fx.evalArgs(st, msig, call)
		qn := funcQName(m)
		if con := fx.eng.contractFor(qn); con != nil && !con.Inline {
			return fx.applyContract(st, con, m, recv, msig.Recv().Type(), args, call), true
		}
		if fd, pkg := fx.eng.funcDecl(m); fd != nil && fd.Body != nil {
			return fx.inlineCall(st, m, fd, pkg, recv, args, call), true
		}
	}
	return nil, false
}
