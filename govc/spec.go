package main

// Evaluation of contract (spec) expressions. Spec integers are mathematical.

import (
	"fmt"
	"go/ast"
	"go/constant"
	"go/token"
	"go/types"
	"strconv"
	"strings"
)

type sval struct {
	v Val
	t types.Type // may be nil (mathematical / unknown)
}

type specEnv struct {
	fx          *FuncCtx
	cur         *State
	old         *State
	binds       map[string]sval
	parent      *specEnv
	loop        *loopFrame
	it          *Term
	pos         token.Pos
	names       map[string]sval // callee parameter bindings (current values)
	oldNm       map[string]sval // callee parameter bindings at call time
	results     []sval
	resNames    []string
	pkg         *types.Package
	pkgPath     string
	entryParams bool // bare parameter names denote entry values (ensures clauses)
	isCallee    bool
	preTop      Term
	guards      []Term // conditions under which the expression being evaluated is reached (ite / && / || / ==>)
}

func (e *specEnv) under(g Term) *specEnv {
	c := *e
	c.guards = append(append([]Term{}, e.guards...), g)
	return &c
}

func (e *specEnv) child() *specEnv {
	c := *e
	c.binds = map[string]sval{}
	c.parent = e
	return &c
}

func (e *specEnv) lookupBind(name string) (sval, bool) {
	for x := e; x != nil; x = x.parent {
		if v, ok := x.binds[name]; ok {
			return v, true
		}
	}
	return sval{}, false
}

func (fx *FuncCtx) specBool(env *specEnv, e ast.Expr) Term {
	v := fx.specEval(env, e)
	t, ok := v.v.(Term)
	if !ok || t.Sort != SBool {
		fx.unsupportedf("spec: expected bool for %s", fx.specSrc(e))
	}
	return t
}

func (fx *FuncCtx) specTerm(env *specEnv, e ast.Expr) Term {
	v := fx.specEval(env, e)
	t, ok := unwrapScalar(v.v)
	if !ok {
		fx.unsupportedf("spec: expected scalar for %s got %s", fx.specSrc(e), valString(v.v))
	}
	return t
}

func (fx *FuncCtx) specSrc(e ast.Expr) string {
	var b strings.Builder
	b.WriteString(types.ExprString(e))
	return b.String()
}

func (fx *FuncCtx) specLookup(env *specEnv, name string) (sval, bool) {
	if v, ok := env.lookupBind(name); ok {
		return v, true
	}
	switch name {
	case "true":
		return sval{tTrue, types.Typ[types.Bool]}, true
	case "false":
		return sval{tFalse, types.Typ[types.Bool]}, true
	case "nil":
		return sval{NilV{}, nil}, true
	case "result":
		if len(env.results) >= 1 {
			return env.results[0], true
		}
	case "it":
		if env.it != nil {
			return sval{*env.it, nil}, true
		}
	}
	if strings.HasPrefix(name, "result") {
		if i, err := strconv.Atoi(name[6:]); err == nil && i < len(env.results) {
			return env.results[i], true
		}
	}
	for i, n := range env.resNames {
		if n == name && i < len(env.results) {
			return env.results[i], true
		}
	}
	if env.isCallee {
		if v, ok := env.names[name]; ok {
			return v, true
		}
	} else {
		if env.entryParams {
			if v, ok := fx.params[name]; ok {
				return sval{v, fx.paramObj[name].Type()}, true
			}
		}
		// local variable in scope (innermost)
		if env.cur != nil {
			var best types.Object
			for obj := range env.cur.vars {
				if obj.Name() != name {
					continue
				}
				if env.pos.IsValid() && obj.Parent() != nil && !obj.Parent().Contains(env.pos) && obj.Parent() != fx.pkg.Types.Scope() {
					// function-level scope objects (params) have Parent() = function scope, which contains pos
					continue
				}
				if best == nil || obj.Pos() > best.Pos() {
					best = obj
				}
			}
			if best != nil {
				v := env.cur.vars[best]
				if hv, ok := v.(heapVar); ok {
					v = fx.loadHeap(env.cur, hv.prefix, hv.ref, best.Type())
				}
				return sval{v, best.Type()}, true
			}
		}
		if v, ok := fx.params[name]; ok {
			return sval{v, fx.paramObj[name].Type()}, true
		}
	}
	if v, ok := fx.lets[name]; ok && !env.isCallee {
		return sval{v, nil}, true
	}
	// package-level constant
	pkg := env.pkg
	if pkg == nil {
		pkg = fx.pkg.Types
	}
	if obj := pkg.Scope().Lookup(name); obj != nil {
		switch o := obj.(type) {
		case *types.Const:
			return sval{fx.constVal(o.Val(), o.Type()), o.Type()}, true
		case *types.Var:
			st := env.cur
			if st == nil {
				st = fx.entry
			}
			return sval{fx.globalVar(st, o), o.Type()}, true
		}
	}
	return sval{}, false
}

func (fx *FuncCtx) specEval(env *specEnv, e ast.Expr) sval {
	switch x := e.(type) {
	case *ast.ParenExpr:
		return fx.specEval(env, x.X)
	case *ast.BasicLit:
		switch x.Kind {
		case token.INT:
			cv := constant.MakeFromLiteral(x.Value, token.INT, 0)
			return sval{fx.constVal(cv, types.Typ[types.Int]), nil}
		case token.FLOAT:
			cv := constant.MakeFromLiteral(x.Value, token.FLOAT, 0)
			return sval{fx.constVal(cv, types.Typ[types.Float64]), types.Typ[types.Float64]}
		case token.STRING:
			s, _ := strconv.Unquote(x.Value)
			return sval{fx.strLit(s), types.Typ[types.String]}
		}
	case *ast.Ident:
		if v, ok := fx.specLookup(env, x.Name); ok {
			return v
		}
		fx.unsupportedf("spec: unknown name %s", x.Name)
	case *ast.UnaryExpr:
		v := fx.specEval(env, x.X)
		switch x.Op {
		case token.NOT:
			return sval{Not(v.v.(Term)), v.t}
		case token.SUB:
			t := v.v.(Term)
			if t.Sort == SInt {
				return sval{Neg(t), nil}
			}
			return sval{fx.fneg(t, t.Sort), v.t}
		case token.ADD:
			return v
		}
	case *ast.BinaryExpr:
		return fx.specBinary(env, x)
	case *ast.CallExpr:
		return fx.specCall(env, x)
	case *ast.IndexExpr:
		b := fx.specEval(env, x.X)
		switch bv := b.v.(type) {
		case SliceV:
			i := fx.specTerm(env, x.Index)
			if fx.recBuilding != nil {
				fx.recBuilding.noteRead(env, bv, i)
			}
			return sval{fx.memRead(env.cur, bv, i), bv.Elem}
		case ArrayV:
			i := fx.specTerm(env, x.Index)
			return sval{fx.wrapElem(Select(bv.Arr, i, scalarSort(bv.T.Elem())), bv.T.Elem()), bv.T.Elem()}
		case MapV:
			v, _ := fx.mapLookup(env.cur, bv, fx.specEval(env, x.Index).v)
			return sval{v, bv.T.Elem()}
		case StrV:
			i := fx.specTerm(env, x.Index)
			fx.declFun("strat", []Sort{SStr, SInt}, SInt)
			return sval{app(SInt, "strat", bv.ID, i), types.Typ[types.Uint8]}
		}
		fx.unsupportedf("spec: index of %s", valString(b.v))
	case *ast.SliceExpr:
		b := fx.specEval(env, x.X)
		if sv, ok := b.v.(SliceV); ok {
			lo := IntLit(0)
			if x.Low != nil {
				lo = fx.specTerm(env, x.Low)
			}
			hi := sv.Len
			if x.High != nil {
				hi = fx.specTerm(env, x.High)
			}
			return sval{SliceV{Rid: sv.Rid, Off: Add(sv.Off, lo), Len: Sub(hi, lo), Cap: Sub(sv.Cap, lo), Elem: sv.Elem}, b.t}
		}
	case *ast.SelectorExpr:
		// package-qualified constant?
		if id, ok := x.X.(*ast.Ident); ok {
			if _, bound := fx.specLookup(env, id.Name); !bound {
				if p := fx.eng.importedPkg(fx, env, id.Name); p != nil {
					obj := p.Scope().Lookup(x.Sel.Name)
					switch o := obj.(type) {
					case *types.Const:
						return sval{fx.constVal(o.Val(), o.Type()), o.Type()}
					case *types.Var:
						return sval{fx.globalVar(env.cur, o), o.Type()}
					}
					fx.unsupportedf("spec: %s.%s not a constant or variable", id.Name, x.Sel.Name)
				}
			}
		}
		b := fx.specEval(env, x.X)
		return fx.specField(env, b, x.Sel.Name)
	case *ast.StarExpr:
		b := fx.specEval(env, x.X)
		if p, ok := b.v.(PtrV); ok {
			return sval{fx.loadHeap(env.cur, heapPrefix(p.Elem), p.Ref, p.Elem), p.Elem}
		}
	}
	fx.unsupportedf("spec: expression %s", fx.specSrc(e))
	return sval{}
}

func (fx *FuncCtx) specField(env *specEnv, b sval, name string) sval {
	switch bv := b.v.(type) {
	case StructV:
		i, s := fx.fieldIndexDeep(bv.T, name)
		if i != nil {
			v := Val(bv)
			t := bv.T
			for _, k := range i {
				sv := v.(StructV)
				t = sv.T.Underlying().(*types.Struct).Field(k).Type()
				v = sv.Fields[k]
			}
			_ = s
			return sval{v, t}
		}
	case PtrV:
		if _, ok := bv.Elem.Underlying().(*types.Struct); ok {
			path, _ := fx.fieldIndexDeep(bv.Elem, name)
			if path != nil {
				v := Val(bv)
				t := types.Type(types.NewPointer(bv.Elem))
				fx.discard++
				v = fx.selectPath(env.cur, v, t, path, nil)
				fx.discard--
				ft := fx.fieldType(bv.Elem, path)
				return sval{v, ft}
			}
		}
	case SliceV:
		switch name {
		case "len":
			return sval{bv.Len, nil}
		case "cap":
			return sval{bv.Cap, nil}
		case "off":
			return sval{bv.Off, nil}
		case "rid":
			return sval{bv.Rid, nil}
		}
	}
	fx.unsupportedf("spec: field %s of %s", name, valString(b.v))
	return sval{}
}

func (fx *FuncCtx) fieldType(t types.Type, path []int) types.Type {
	for _, i := range path {
		if p, ok := t.Underlying().(*types.Pointer); ok {
			t = p.Elem()
		}
		t = t.Underlying().(*types.Struct).Field(i).Type()
	}
	return t
}

// fieldIndexDeep finds a field by name, looking through embedded structs.
func (fx *FuncCtx) fieldIndexDeep(t types.Type, name string) ([]int, *types.Struct) {
	s, ok := t.Underlying().(*types.Struct)
	if !ok {
		return nil, nil
	}
	for i := 0; i < s.NumFields(); i++ {
		if s.Field(i).Name() == name {
			return []int{i}, s
		}
	}
	for i := 0; i < s.NumFields(); i++ {
		if s.Field(i).Embedded() {
			if p, _ := fx.fieldIndexDeep(s.Field(i).Type(), name); p != nil {
				return append([]int{i}, p...), s
			}
		}
	}
	return nil, nil
}

func (fx *FuncCtx) specBinary(env *specEnv, x *ast.BinaryExpr) sval {
	if x.Op == token.LAND || x.Op == token.LOR {
		a := fx.specBool(env, x.X)
		if x.Op == token.LAND {
			b := fx.specBool(env.under(a), x.Y)
			return sval{And(a, b), nil}
		}
		b := fx.specBool(env.under(Not(a)), x.Y)
		return sval{Or(a, b), nil}
	}
	l := fx.specEval(env, x.X)
	r := fx.specEval(env, x.Y)
	if _, ok := r.v.(NilV); ok {
		return sval{fx.nilCompare(x.Op, l.v, x), nil}
	}
	if _, ok := l.v.(NilV); ok {
		return sval{fx.nilCompare(x.Op, r.v, x), nil}
	}
	a, ok1 := unwrapScalar(l.v)
	b, ok2 := unwrapScalar(r.v)
	if !ok1 || !ok2 {
		if ls, ok := l.v.(StrV); ok {
			if rs, ok := r.v.(StrV); ok {
				switch x.Op {
				case token.EQL:
					return sval{Eq(ls.ID, rs.ID), nil}
				case token.NEQ:
					return sval{Not(Eq(ls.ID, rs.ID)), nil}
				}
			}
		}
		if ls, ok := l.v.(SliceV); ok {
			if rs, ok := r.v.(SliceV); ok && x.Op == token.EQL {
				return sval{And(Eq(ls.Rid, rs.Rid), Eq(ls.Off, rs.Off), Eq(ls.Len, rs.Len), Eq(ls.Cap, rs.Cap)), nil}
			}
		}
		fx.unsupportedf("spec: binary %s on %s,%s", x.Op, valString(l.v), valString(r.v))
	}
	if a.Sort == SInt && (b.Sort == SF64 || b.Sort == SF32) {
		// integer literal on the left of a float operand
		if n, ok := isIntLit(a); ok {
			a = fx.floatConst(float64(n), b.Sort)
			l.t = r.t
		}
	}
	switch a.Sort {
	case SInt:
		if b.Sort != SInt {
			fx.unsupportedf("spec: mixed sorts in %s", fx.specSrc(x))
		}
		switch x.Op {
		case token.ADD:
			return sval{Add(a, b), nil}
		case token.SUB:
			return sval{Sub(a, b), nil}
		case token.MUL:
			return sval{Mul(a, b), nil}
		case token.QUO:
			return sval{app(SInt, "tdiv", a, b), nil}
		case token.REM:
			return sval{app(SInt, "tmod", a, b), nil}
		case token.EQL:
			return sval{Eq(a, b), nil}
		case token.NEQ:
			return sval{Not(Eq(a, b)), nil}
		case token.LSS:
			return sval{Lt(a, b), nil}
		case token.LEQ:
			return sval{Le(a, b), nil}
		case token.GTR:
			return sval{Gt(a, b), nil}
		case token.GEQ:
			return sval{Ge(a, b), nil}
		}
	case SBool:
		switch x.Op {
		case token.EQL:
			return sval{Eq(a, b), nil}
		case token.NEQ:
			return sval{Not(Eq(a, b)), nil}
		}
	case SF64, SF32:
		if b.Sort == SInt {
			// allow float compared with integer literal
			if n, ok := isIntLit(b); ok {
				b = fx.floatConst(float64(n), a.Sort)
			}
		}
		return sval{fx.floatOp(x.Op, a, b, a.Sort, x), l.t}
	case SC128, SC64:
		return sval{fx.complexOp(x.Op, a, b, a.Sort, x), l.t}
	case SIfc, SStr:
		switch x.Op {
		case token.EQL:
			return sval{Eq(a, b), nil}
		case token.NEQ:
			return sval{Not(Eq(a, b)), nil}
		}
	}
	fx.unsupportedf("spec: binary %s", fx.specSrc(x))
	return sval{}
}

func (fx *FuncCtx) specCall(env *specEnv, x *ast.CallExpr) sval {
	name := ""
	switch f := x.Fun.(type) {
	case *ast.Ident:
		name = f.Name
	case *ast.SelectorExpr:
		if id, ok := f.X.(*ast.Ident); ok {
			name = id.Name + "." + f.Sel.Name
		}
	}
	arg := func(i int) sval { return fx.specEval(env, x.Args[i]) }
	argT := func(i int) Term { return fx.specTerm(env, x.Args[i]) }
	switch name {
	case "forall", "exists":
		// forall(k, lo, hi, body)  or forall(k, body)
		id, ok := x.Args[0].(*ast.Ident)
		if !ok {
			fx.unsupportedf("spec: quantifier variable")
		}
		bv := Term{fx.freshName("q_" + id.Name), SInt}
		c := env.child()
		c.binds[id.Name] = sval{bv, nil}
		var rng Term = tTrue
		var body Term
		fx.inQuant++
		defer func() { fx.inQuant-- }()
		if len(x.Args) == 4 {
			lo := argT(1)
			hi := argT(2)
			rng = And(Le(lo, bv), Lt(bv, hi))
			body = fx.specBool(c, x.Args[3])
		} else {
			body = fx.specBool(c, x.Args[len(x.Args)-1])
		}
		if name == "forall" {
			return sval{Term{fmt.Sprintf("(forall ((%s Int)) %s)", bv.S, Implies(rng, body).S), SBool}, nil}
		}
		return sval{Term{fmt.Sprintf("(exists ((%s Int)) %s)", bv.S, And(rng, body).S), SBool}, nil}
	case "implies":
		h := fx.specBool(env, x.Args[0])
		return sval{Implies(h, fx.specBool(env.under(h), x.Args[1])), nil}
	case "ite":
		c := fx.specBool(env, x.Args[0])
		a := fx.specEval(env.under(c), x.Args[1])
		b := fx.specEval(env.under(Not(c)), x.Args[2])
		at, _ := unwrapScalar(a.v)
		bt, _ := unwrapScalar(b.v)
		rt := a.t
		if at.Sort != bt.Sort {
			if n, ok := isIntLit(at); ok && at.Sort == SInt {
				at, rt = fx.floatConst(float64(n), bt.Sort), b.t
			} else if n, ok := isIntLit(bt); ok && bt.Sort == SInt {
				bt = fx.floatConst(float64(n), at.Sort)
			}
		}
		return sval{Ite(c, at, bt), rt}
	case "abs":
		a := argT(0)
		if a.Sort == SInt {
			return sval{app(SInt, "iabs", a), nil}
		}
		return sval{fx.mathAbs(a), nil}
	case "min", "max":
		a := argT(0)
		for i := 1; i < len(x.Args); i++ {
			b := argT(i)
			if name == "min" {
				a = app(SInt, "imin", a, b)
			} else {
				a = app(SInt, "imax", a, b)
			}
		}
		return sval{a, nil}
	case "old":
		c := *env
		c.cur = env.old
		if env.oldNm != nil {
			c.names = env.oldNm
		}
		c.entryParams = true
		return fx.specEval(&c, x.Args[0])
	case "atloop":
		if env.loop == nil {
			fx.unsupportedf("spec: atloop outside loop")
		}
		c := *env
		c.cur = env.loop.pre
		return fx.specEval(&c, x.Args[0])
	case "len":
		a := arg(0)
		switch v := a.v.(type) {
		case SliceV:
			return sval{v.Len, nil}
		case StrV:
			return sval{v.Len, nil}
		case ArrayV:
			return sval{IntLit(v.T.Len()), nil}
		case MapV:
			return sval{fx.mapLen(env.cur, v), nil}
		}
		fx.unsupportedf("spec: len of %s", valString(a.v))
	case "cap":
		a := arg(0)
		if v, ok := a.v.(SliceV); ok {
			return sval{v.Cap, nil}
		}
	case "int", "int64", "int32":
		a := arg(0)
		t, _ := unwrapScalar(a.v)
		if a.t != nil {
			if k, ok := intInfo(a.t); ok && !k.signed && k.bits == 64 && name != "int32" {
				return sval{fx.signedOf(t, k), types.Typ[types.Int]}
			}
		}
		return sval{t, types.Typ[types.Int]}
	case "uintptr", "uint64", "uint":
		a := argT(0)
		return sval{app(SInt, "mod", a, Pow2(64)), types.Typ[types.Uintptr]}
	case "uint8", "byte":
		a := argT(0)
		return sval{app(SInt, "mod", a, Pow2(8)), types.Typ[types.Uint8]}
	case "uint32":
		a := argT(0)
		return sval{app(SInt, "mod", a, Pow2(32)), types.Typ[types.Uint32]}
	case "float64":
		a := argT(0)
		if a.Sort == SInt {
			return sval{fx.intToFloat(a, SF64), types.Typ[types.Float64]}
		}
		return sval{a, types.Typ[types.Float64]}
	case "has":
		m := arg(0)
		mv, ok := m.v.(MapV)
		if !ok {
			fx.unsupportedf("spec: has() on non-map")
		}
		_, okT := fx.mapLookup(env.cur, mv, arg(1).v)
		return sval{okT, nil}
	case "hasType":
		// hasType(x, T): the dynamic type of interface value x is T (T: *Dense, VecDense, pkg.Type ...)
		a := arg(0)
		iv, ok := a.v.(IfaceV)
		if !ok {
			fx.unsupportedf("spec: hasType on non-interface")
		}
		t := fx.specType(env, x.Args[1])
		fx.declFun("typeOf", []Sort{SIfc}, SInt)
		fx.declare("(declare-const nilIface Iface)")
		return sval{And(Not(Eq(iv.T, Term{"nilIface", SIfc})), Eq(app(SInt, "typeOf", iv.T), IntLit(fx.eng.typeID(t)))), nil}
	case "unbox":
		// unbox(x, T): the value of dynamic type T stored in interface x
		a := arg(0)
		iv, ok := a.v.(IfaceV)
		if !ok {
			fx.unsupportedf("spec: unbox on non-interface")
		}
		t := fx.specType(env, x.Args[1])
		_, v := fx.assertTo(env.cur, iv, t)
		return sval{v, t}
	case "typeOf":
		a := arg(0)
		if iv, ok := a.v.(IfaceV); ok {
			fx.declFun("typeOf", []Sort{SIfc}, SInt)
			return sval{app(SInt, "typeOf", iv.T), nil}
		}
	case "isNaN", "math.IsNaN":
		return sval{fx.mathIsNaN(argT(0)), nil}
	case "isInf":
		return sval{fx.mathIsInf(argT(0), 0), nil}
	case "sortedFloats":
		// sort.Float64sAreSorted(s): no element is less than its predecessor in sort's order
		sv, ok := arg(0).v.(SliceV)
		if !ok {
			fx.unsupportedf("spec: sortedFloats of non-slice")
		}
		es := fx.elemSort(sv.Elem)
		name := memName(sv.Elem)
		m := fx.heapGet(env.cur, name, fx.memSort(sv.Elem))
		row := Select(m, sv.Rid, ArraySort(SInt, es))
		q := fx.freshName("q_so")
		a := Select(row, Add(sv.Off, Term{q, SInt}), es)
		b := Select(row, Add(sv.Off, Sub(Term{q, SInt}, IntLit(1))), es)
		lt := fx.floatOp(token.LSS, a, b, es, x).(Term)
		less := Or(lt, And(fx.mathIsNaN(a), Not(fx.mathIsNaN(b))))
		return sval{Term{fmt.Sprintf("(forall ((%s Int)) (=> (and (<= 1 %s) (< %s %s)) (not %s)))", q, q, q, sv.Len.S, less.S), SBool}, nil}
	case "same":
		// identity of values (bit-for-bit for floats), as opposed to IEEE ==
		a, ok1 := unwrapScalar(arg(0).v)
		b, ok2 := unwrapScalar(arg(1).v)
		if !ok1 || !ok2 || a.Sort != b.Sort {
			fx.unsupportedf("spec: same() needs two scalars of one sort")
		}
		return sval{Eq(a, b), nil}
	case "sameSlice":
		a, _ := arg(0).v.(SliceV)
		b, _ := arg(1).v.(SliceV)
		return sval{And(Eq(a.Rid, b.Rid), Eq(a.Off, b.Off), Eq(a.Len, b.Len)), nil}
	case "disjoint":
		a, ok1 := arg(0).v.(SliceV)
		b, ok2 := arg(1).v.(SliceV)
		if ok1 && ok2 {
			return sval{Or(Not(Eq(a.Rid, b.Rid)), Le(Add(a.Off, a.Cap), b.Off), Le(Add(b.Off, b.Cap), a.Off)), nil}
		}
	case "pow2":
		fx.declarePow2()
		return sval{app(SInt, "pow2", argT(0)), nil}
	case "div":
		return sval{app(SInt, "div", argT(0), argT(1)), nil}
	case "mod":
		return sval{app(SInt, "mod", argT(0), argT(1)), nil}
	case "seen":
		// key already visited by the innermost enclosing range-over-map loop
		if env.loop == nil || env.loop.seenName == "" {
			fx.unsupportedf("spec: seen() outside a range-over-map loop")
		}
		k := argT(0)
		return sval{Select(env.cur.heap[env.loop.seenName], k, SBool), nil}
	case "fresh":
		// the object was allocated during this call
		a := arg(0)
		if sv, isSlice := a.v.(SliceV); isSlice {
			// a slice whose backing region was allocated during this call: regions handed in by the
			// caller have non-negative identifiers, allocations negative ones
			return sval{Lt(sv.Rid, IntLit(0)), nil}
		}
		t, ok := unwrapScalar(a.v)
		if !ok {
			fx.unsupportedf("spec: fresh() of non-reference")
		}
		top := env.preTop
		if top.S == "" {
			// in the function's own body: an object made by new / a composite literal lies above the
			// entry frontier, an address-taken local that escapes has a negative reference
			// (RowView's `var v VecDense; ...; return &v` is a new object for the caller)
			return sval{Or(Ge(t, Term{"alloc0", SInt}), Lt(t, IntLit(0))), nil}
		}
		return sval{Ge(t, top), nil}
	case "written":
		return sval{env.cur.written, nil}
	}
	switch name {
	case "math.Pow", "math.Log", "math.Exp", "math.Log2", "math.Log1p", "math.Expm1", "math.Cbrt", "math.Sin", "math.Cos", "math.Hypot", "math.Copysign",
		"math.Tan", "math.Asin", "math.Acos", "math.Atan", "math.Sinh", "math.Cosh", "math.Tanh", "math.Asinh", "math.Acosh", "math.Atanh", "math.Log10", "math.Atan2", "math.Gamma", "math.Erf", "math.Erfc":
		// the uninterpreted function the code model uses for the same library call
		var args []Term
		var sorts []Sort
		for i := range x.Args {
			t := argT(i)
			if t.Sort == SInt {
				fx.unsupportedf("spec: %s needs float arguments", name)
			}
			args = append(args, t)
			sorts = append(sorts, t.Sort)
		}
		fn := "math_" + strings.TrimPrefix(name, "math.")
		fx.declFun(fn, sorts, sorts[0])
		return sval{app(sorts[0], fn, args...), types.Typ[types.Float64]}
	}
	if name == "math.Signbit" {
		t := argT(0)
		if t.Sort == SInt {
			fx.unsupportedf("spec: math.Signbit needs a float argument")
		}
		fx.declFun("math_Signbit", []Sort{t.Sort}, SBool)
		return sval{app(SBool, "math_Signbit", t), nil}
	}
	// user spec function
	if sp := fx.eng.lookupSpec(fx, env, name); sp != nil {
		return fx.applySpec(env, sp, x)
	}
	// pure method / function declared in contracts
	if v, ok := fx.specPureCall(env, x, name); ok {
		return v
	}
	fx.unsupportedf("spec: call %s", fx.specSrc(x))
	return sval{}
}

func (fx *FuncCtx) applySpec(env *specEnv, sp *SpecFunc, x *ast.CallExpr) sval {
	if len(x.Args) != len(sp.Params) {
		fx.unsupportedf("spec: wrong arity for %s", sp.Name)
	}
	if sp.Rec {
		return fx.applyRecSpec(env, sp, x)
	}
	c := env.child()
	for i, p := range sp.Params {
		c.binds[p] = fx.specEval(env, x.Args[i])
	}
	// spec bodies see only their parameters and package-level names
	c.isCallee = true
	c.names = map[string]sval{}
	return fx.specEval(c, sp.Body)
}

// specType resolves a type expression of a contract (*T, T, pkg.T).
func (fx *FuncCtx) specType(env *specEnv, e ast.Expr) types.Type {
	switch x := e.(type) {
	case *ast.StarExpr:
		return types.NewPointer(fx.specType(env, x.X))
	case *ast.ParenExpr:
		return fx.specType(env, x.X)
	case *ast.Ident:
		pkg := env.pkg
		if pkg == nil {
			pkg = fx.pkg.Types
		}
		if obj, ok := pkg.Scope().Lookup(x.Name).(*types.TypeName); ok {
			return obj.Type()
		}
		if obj, ok := types.Universe.Lookup(x.Name).(*types.TypeName); ok {
			return obj.Type()
		}
	case *ast.SelectorExpr:
		if id, ok := x.X.(*ast.Ident); ok {
			if p := fx.eng.importedPkg(fx, env, id.Name); p != nil {
				if obj, ok := p.Scope().Lookup(x.Sel.Name).(*types.TypeName); ok {
					return obj.Type()
				}
			}
		}
	}
	fx.unsupportedf("spec: cannot resolve type %s", fx.specSrc(e))
	return nil
}
