package main

// Recursive specification functions:
//
//	//@ spec rec dotp(x []float64, y []float64, n int) float64 reads x[0..n], y[0..n] decreases n =
//	//@      ite(n <= 0, 0, dotp(x, y, n-1) + x[n-1]*y[n-1])
//
// A recursive spec is an uninterpreted SMT function of (row, off, len) per slice
// parameter and the scalar parameters. The solver never sees a quantified
// definition; the engine adds ground instances:
//
//   * unfolding: every application that occurs in a clause is equated with its
//     body (depth recUnfoldDepth, so that one loop step and the base case are visible);
//   * frame: two applications that differ only in the memory row of a slice
//     parameter are equal if the rows agree on the declared footprint.
//
// Both are consequences of the definition provided it is well founded and its
// value depends only on the footprint; that is checked once per function that
// uses the spec (obligations of kind spec.wf): under the guards leading to each
// recursive call the measure is non-negative and decreases and the callee's
// footprint lies inside the caller's, and every read of a slice parameter lies
// inside the footprint.

import (
	"fmt"
	"go/ast"
	"go/types"
	"strings"
)

const recUnfoldDepth = 2

type recFormal struct {
	name    string
	isSlice bool
	elem    types.Type
	rowPat  string // "(select Mrec_x rid)" as it appears in the body template
	rid     string
	off     string
	ln      string
	cp      string
	scalar  string
	sort    Sort
	lo, hi  string // footprint template (slice parameters)
}

type recCall struct {
	guard string
	args  []string
}

type recReadSite struct {
	guard string
	param int
	idx   string
}

type recInfo struct {
	sp      *SpecFunc
	fname   string
	formals []recFormal
	body    string
	ret     Sort
	measure string
	calls   []recCall
	reads   []recReadSite
	nargs   int
}

type recFact struct {
	heads []string
	text  string
}

type recApp struct {
	info *recInfo
	args []string
	app  string
}

func (ri *recInfo) noteRead(env *specEnv, sv SliceV, idx Term) {
	for i, f := range ri.formals {
		if f.isSlice && f.rid == sv.Rid.S {
			// index relative to the formal slice
			rel := Sub(Add(sv.Off, idx), Term{f.off, SInt})
			ri.reads = append(ri.reads, recReadSite{guard: And(env.guards...).S, param: i, idx: rel.S})
			return
		}
	}
}

func specParamType(fx *FuncCtx, s string) types.Type {
	isSlice := strings.HasPrefix(s, "[]")
	base := strings.TrimPrefix(s, "[]")
	var t types.Type
	switch base {
	case "int":
		t = types.Typ[types.Int]
	case "float64":
		t = types.Typ[types.Float64]
	case "float32":
		t = types.Typ[types.Float32]
	case "bool":
		t = types.Typ[types.Bool]
	case "complex128":
		t = types.Typ[types.Complex128]
	default:
		fx.unsupportedf("spec rec: parameter type %s", s)
	}
	if isSlice {
		return types.NewSlice(t)
	}
	return t
}

func (fx *FuncCtx) recInfoFor(env *specEnv, sp *SpecFunc) *recInfo {
	if ri := fx.recInfos[sp]; ri != nil {
		return ri
	}
	if fx.recInfos == nil {
		fx.recInfos = map[*SpecFunc]*recInfo{}
		fx.recSeen = map[string]bool{}
	}
	ri := &recInfo{sp: sp, fname: "rs_" + smtName(sp.Name)}
	fx.recInfos[sp] = ri
	fx.recInfoOrder = append(fx.recInfoOrder, sp)
	tst := &State{vars: map[types.Object]Val{}, heap: map[string]Term{}, written: tFalse}
	binds := map[string]sval{}
	var argSorts []Sort
	for i, p := range sp.Params {
		pt := specParamType(fx, sp.PTypes[i])
		f := recFormal{name: p}
		if st, ok := pt.(*types.Slice); ok {
			f.isSlice = true
			f.elem = st.Elem()
			mn := memName(f.elem)
			m := fx.declConst("Mrec_"+mn, fx.memSort(f.elem))
			tst.heap[mn] = m
			pre := "rf_" + smtName(sp.Name) + "_" + smtName(p)
			rid := fx.declConst(pre+"_rid", SInt)
			off := fx.declConst(pre+"_off", SInt)
			ln := fx.declConst(pre+"_len", SInt)
			cp := fx.declConst(pre+"_cap", SInt)
			f.rid, f.off, f.ln, f.cp = rid.S, off.S, ln.S, cp.S
			es := fx.elemSort(f.elem)
			f.rowPat = Select(m, rid, ArraySort(SInt, es)).S
			binds[p] = sval{SliceV{Rid: rid, Off: off, Len: ln, Cap: cp, Elem: f.elem}, pt}
			argSorts = append(argSorts, ArraySort(SInt, es), SInt)
		} else {
			f.sort = scalarSort(pt)
			c := fx.declConst("rf_"+smtName(sp.Name)+"_"+smtName(p), f.sort)
			f.scalar = c.S
			binds[p] = sval{c, pt}
			argSorts = append(argSorts, f.sort)
		}
		ri.formals = append(ri.formals, f)
	}
	ri.nargs = len(argSorts)
	switch sp.Ret {
	case "int":
		ri.ret = SInt
	case "bool":
		ri.ret = SBool
	case "float64":
		ri.ret = scalarSort(types.Typ[types.Float64])
	case "float32":
		ri.ret = scalarSort(types.Typ[types.Float32])
	default:
		fx.unsupportedf("spec rec %s: result type %s", sp.Name, sp.Ret)
	}
	fx.declFun(ri.fname, argSorts, ri.ret)

	c := env.child()
	c.binds = binds
	c.parent = nil
	c.cur, c.old = tst, tst
	c.isCallee = true
	c.names = map[string]sval{}
	c.oldNm = nil
	c.guards = nil
	c.entryParams = false
	if pp := fx.eng.specPkg(sp); pp != nil {
		c.pkg, c.pkgPath = pp, sp.Pkg
	}
	saved := fx.recBuilding
	fx.recBuilding = ri
	fx.inQuant++
	func() {
		defer func() { fx.recBuilding = saved; fx.inQuant-- }()
		bt, ok := unwrapScalar(fx.specEval(c, sp.Body).v)
		if !ok {
			fx.unsupportedf("spec rec %s: body is not a scalar", sp.Name)
		}
		if bt.Sort == SInt && ri.ret != SInt && ri.ret != SBool {
			if n, isLit := isIntLit(bt); isLit {
				bt = fx.floatConst(float64(n), ri.ret)
			}
		}
		ri.body = bt.S
		ri.measure = fx.specTerm(c, sp.Decreases).S
		for _, f := range ri.formals {
			if f.isSlice && (replaceSym(ri.body, f.ln, "") != ri.body || replaceSym(ri.body, f.cp, "") != ri.body || replaceSym(ri.measure, f.ln, "") != ri.measure) {
				fx.unsupportedf("spec rec %s: len/cap of slice parameter %s is not available in a recursive spec (pass the length as a parameter)", sp.Name, f.name)
			}
		}
		for i := range ri.formals {
			f := &ri.formals[i]
			if !f.isSlice {
				continue
			}
			if lo, ok := sp.FootLo[f.name]; ok {
				f.lo = fx.specTerm(c, lo).S
				f.hi = fx.specTerm(c, sp.FootHi[f.name]).S
			}
		}
	}()
	fx.recWellFormed(ri)
	return ri
}

// specPkg: the types.Package a spec was declared in.
func (e *Engine) specPkg(sp *SpecFunc) *types.Package {
	if pi := e.pkgs[sp.Pkg]; pi != nil {
		return pi.pkg.Types
	}
	return nil
}

// formalArgs: the flattened formal argument strings.
func (ri *recInfo) formalArgs() []string {
	var out []string
	for _, f := range ri.formals {
		if f.isSlice {
			out = append(out, f.rowPat, f.off)
		} else {
			out = append(out, f.scalar)
		}
	}
	return out
}

// inst substitutes actual flattened arguments for the formals in a template.
func (ri *recInfo) inst(tmpl string, args []string) string {
	s := tmpl
	k := 0
	// rows first (compound patterns), then symbols; placeholders avoid re-substitution
	for _, f := range ri.formals {
		if f.isSlice {
			s = strings.ReplaceAll(s, f.rowPat, "\x00a"+fmt.Sprint(k)+"\x00")
			s = replaceSym(s, f.off, "\x00a"+fmt.Sprint(k+1)+"\x00")
			k += 2
		} else {
			s = replaceSym(s, f.scalar, "\x00a"+fmt.Sprint(k)+"\x00")
			k++
		}
	}
	for i := range args {
		s = strings.ReplaceAll(s, "\x00a"+fmt.Sprint(i)+"\x00", args[i])
	}
	return s
}

func (ri *recInfo) appOf(args []string) string {
	return "(" + ri.fname + " " + strings.Join(args, " ") + ")"
}

// recWellFormed emits the obligations that make unfolding and frame instances sound.
func (fx *FuncCtx) recWellFormed(ri *recInfo) {
	if fx.decl == nil || fx.discard > 0 {
		if fx.decl == nil {
			fx.notes = append(fx.notes, "spec rec "+ri.sp.Name+": well-formedness is checked in the functions that use it, not in lemmas")
		}
		return
	}
	kind := "spec.wf"
	if fx.real {
		kind = "spec.wf.real"
	}
	st := &State{vars: map[types.Object]Val{}, heap: map[string]Term{}, written: tFalse}
	formal := ri.formalArgs()
	for i, c := range ri.calls {
		if len(c.args) != len(formal) {
			fx.unsupportedf("spec rec %s: recursive call arity", ri.sp.Name)
		}
		k := 0
		var incl []Term
		for _, f := range ri.formals {
			if f.isSlice {
				if c.args[k] != f.rowPat || c.args[k+1] != f.off {
					fx.unsupportedf("spec rec %s: a recursive call must pass slice parameter %s unchanged", ri.sp.Name, f.name)
				}
				if f.lo == "" {
					k += 2
					continue
				}
				lo2, hi2 := Term{ri.inst(f.lo, c.args), SInt}, Term{ri.inst(f.hi, c.args), SInt}
				incl = append(incl, Or(Ge(lo2, hi2), And(Le(Term{f.lo, SInt}, lo2), Le(hi2, Term{f.hi, SInt}))))
				k += 2
			} else {
				k++
			}
		}
		m := Term{ri.measure, SInt}
		m2 := Term{ri.inst(ri.measure, c.args), SInt}
		g := Term{c.guard, SBool}
		goal := Implies(g, And(append([]Term{Ge(m, IntLit(0)), Lt(m2, m)}, incl...)...))
		fx.oblige(st, kind, goal, fx.decl, fmt.Sprintf("spec rec %s: recursive call %d terminates and stays inside the footprint", ri.sp.Name, i+1))
	}
	for i, r := range ri.reads {
		f := ri.formals[r.param]
		if f.lo == "" {
			continue // no declared footprint: the value may depend on the whole row, no frame instances are generated
		}
		idx := Term{r.idx, SInt}
		goal := Implies(Term{r.guard, SBool}, And(Le(Term{f.lo, SInt}, idx), Lt(idx, Term{f.hi, SInt})))
		fx.oblige(st, kind, goal, fx.decl, fmt.Sprintf("spec rec %s: read %d of %s lies inside the footprint", ri.sp.Name, i+1, f.name))
	}
}

func (fx *FuncCtx) applyRecSpec(env *specEnv, sp *SpecFunc, x *ast.CallExpr) sval {
	ri := fx.recInfoFor(env, sp)
	var args []string
	for i, f := range ri.formals {
		a := fx.specEval(env, x.Args[i])
		if f.isSlice {
			sv, ok := a.v.(SliceV)
			if !ok {
				fx.unsupportedf("spec rec %s: argument %d is not a slice", sp.Name, i+1)
			}
			if fx.recBuilding != nil {
				// inside a template: the formal slice itself
				es := fx.elemSort(sv.Elem)
				m := fx.heapGet(env.cur, memName(sv.Elem), fx.memSort(sv.Elem))
				args = append(args, Select(m, sv.Rid, ArraySort(SInt, es)).S, sv.Off.S)
				continue
			}
			es := fx.elemSort(sv.Elem)
			st := env.cur
			if st == nil {
				st = fx.entry
			}
			m := fx.heapGet(st, memName(sv.Elem), fx.memSort(sv.Elem))
			args = append(args, Select(m, sv.Rid, ArraySort(SInt, es)).S, sv.Off.S)
		} else {
			t, ok := unwrapScalar(a.v)
			if !ok {
				fx.unsupportedf("spec rec %s: argument %d is not a scalar", sp.Name, i+1)
			}
			if t.Sort == SInt && f.sort != SInt {
				if n, isLit := isIntLit(t); isLit {
					t = fx.floatConst(float64(n), f.sort)
				}
			}
			args = append(args, t.S)
		}
	}
	app := ri.appOf(args)
	if fx.recBuilding != nil {
		if fx.recBuilding == ri {
			ri.calls = append(ri.calls, recCall{guard: And(env.guards...).S, args: args})
		} else if ri.body == "" {
			// ri is still being built further up the stack: mutual recursion
			fx.unsupportedf("spec rec %s: mutually recursive specs are not supported", sp.Name)
		}
		// a call to another, already defined recursive spec is an ordinary application
		return sval{Term{app, ri.ret}, nil}
	}
	if fx.inQuant == 0 || !hasBoundVar(app) {
		fx.recRegister(ri, args, 0, true)
	}
	return sval{Term{app, ri.ret}, nil}
}

// recRegister is a no-op: instances are generated when a query is built (recFactsFor).
func (fx *FuncCtx) recRegister(ri *recInfo, args []string, depth int, top bool) {}

// scanRecApps finds the ground applications of recursive specs in a text.
func (fx *FuncCtx) scanRecApps(text string, seen map[string]bool) []recApp {
	var out []recApp
	byName := map[string]*recInfo{}
	for _, ri := range fx.recInfos {
		byName[ri.fname] = ri
	}
	for pos := 0; ; {
		k := strings.Index(text[pos:], "(rs_")
		if k < 0 {
			break
		}
		k += pos
		depth := 0
		end := -1
		for j := k; j < len(text); j++ {
			if text[j] == '(' {
				depth++
			} else if text[j] == ')' {
				depth--
				if depth == 0 {
					end = j + 1
					break
				}
			}
		}
		if end < 0 {
			break
		}
		app := text[k:end]
		pos = k + 4
		if seen[app] {
			continue
		}
		seen[app] = true
		if hasBoundVar(app) {
			continue
		}
		n := parseSx(app)
		ri := byName[n.kids[0].String()]
		if ri == nil || len(n.kids) != ri.nargs+1 {
			continue
		}
		var as []string
		for _, kid := range n.kids[1:] {
			as = append(as, kid.String())
		}
		out = append(out, recApp{info: ri, args: as, app: app})
	}
	return out
}

// recFactsFor generates the ground instances relevant to a query: unfoldings
// (depth recUnfoldDepth) of the applications that occur in it, and frame
// instances between applications of one spec whose rows differ on a parameter
// with a declared footprint.
func (fx *FuncCtx) recFactsFor(text string) []string {
	if len(fx.recInfos) == 0 || !strings.Contains(text, "(rs_") {
		return nil
	}
	var out []string
	seen := map[string]bool{}
	top := fx.scanRecApps(text, seen)
	if len(top) > 60 {
		top = top[:60]
	}
	// frame instances among the applications written in the query
	var frameNew []recApp
	fseen := map[string]bool{}
	for _, a := range top {
		for _, b := range top {
			if a.info != b.info || a.app == b.app {
				continue
			}
			if f, app2, ok := recFrameFact(a, b); ok && !fseen[a.app+"|"+app2.app] && !fseen[app2.app+"|"+a.app] {
				fseen[a.app+"|"+app2.app] = true
				out = append(out, f)
				if !seen[app2.app] {
					seen[app2.app] = true
					frameNew = append(frameNew, app2)
				}
			}
		}
	}
	work := append(append([]recApp{}, top...), frameNew...)
	for depth := 0; depth < recUnfoldDepth && len(work) > 0; depth++ {
		var next []recApp
		for _, a := range work {
			body := a.info.inst(a.info.body, a.args)
			out = append(out, "(= "+a.app+" "+body+")")
			next = append(next, fx.scanRecApps(body, seen)...)
		}
		work = next
	}
	return out
}

// recFrameFact: a with the rows of b (where they differ, on parameters with a
// declared footprint) equals a if the rows agree on a's footprint.
func recFrameFact(a, b recApp) (string, recApp, bool) {
	ri := a.info
	args2 := append([]string{}, a.args...)
	var agree []string
	k := 0
	for _, f := range ri.formals {
		if !f.isSlice {
			k++
			continue
		}
		if a.args[k] != b.args[k] {
			if a.args[k+1] != b.args[k+1] {
				return "", recApp{}, false
			}
			args2[k] = b.args[k]
			if f.lo == "" {
				// no declared footprint: the rows must be equal (typically the same region in two memory versions)
				agree = append(agree, fmt.Sprintf("(= %s %s)", a.args[k], b.args[k]))
				k += 2
				continue
			}
			lo := ri.inst(f.lo, a.args)
			hi := ri.inst(f.hi, a.args)
			agree = append(agree, fmt.Sprintf("(forall ((q_rf Int)) (=> (and (<= %s q_rf) (< q_rf %s)) (= (select %s (+ %s q_rf)) (select %s (+ %s q_rf)))))",
				lo, hi, a.args[k], a.args[k+1], b.args[k], a.args[k+1]))
		}
		k += 2
	}
	if len(agree) == 0 {
		return "", recApp{}, false
	}
	app2 := recApp{info: ri, args: args2, app: ri.appOf(args2)}
	if app2.app == a.app {
		return "", recApp{}, false
	}
	return fmt.Sprintf("(=> (and %s) (= %s %s))", strings.Join(agree, " "), a.app, app2.app), app2, true
}

func (fx *FuncCtx) markRec(k string) {
	fx.recSeen[k] = true
	fx.recSeenOrder = append(fx.recSeenOrder, k)
}
