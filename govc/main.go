package main

import (
	"encoding/json"
	"flag"
	"fmt"
	"os"
	"os/exec"
	"sort"
	"strings"
	"time"
)

func main() {
	if len(os.Args) < 2 {
		fmt.Fprintln(os.Stderr, "usage: govc verify|check|list ...")
		os.Exit(2)
	}
	switch os.Args[1] {
	case "verify":
		cmdVerify(os.Args[2:])
	case "check":
		cmdCheck(os.Args[2:])
	case "selftest":
		cmdSelftest(os.Args[2:])
	case "replay":
		cmdReplay(os.Args[2:])
	default:
		fmt.Fprintln(os.Stderr, "unknown command", os.Args[1])
		os.Exit(2)
	}
}

// cmdVerify: development entry point — verify the functions matching a pattern.
func cmdVerify(args []string) {
	fs := flag.NewFlagSet("verify", flag.ExitOnError)
	repo := fs.String("repo", "/repo", "repository root")
	tags := fs.String("tags", "verif,noasm", "build tags")
	pat := fs.String("func", "", "substring of pkg.Func to verify (empty: all)")
	verbose := fs.Bool("v", false, "print every obligation")
	timeout := fs.Int("timeout", 10000, "per-obligation timeout (ms)")
	keep := fs.Bool("keep", false, "keep failed queries")
	thorough := fs.Bool("thorough", false, "also decide the clauses tagged [realx]")
	fs.Parse(args)
	thoroughTier = *thorough
	t0 := time.Now()
	e := NewEngine(*repo, *tags)
	e.verbose = *verbose
	dirs := contractDirs(*repo)
	if err := e.Load(dirs); err != nil {
		fmt.Fprintln(os.Stderr, "load:", err)
		os.Exit(2)
	}
	for _, er := range e.cs.Errors {
		fmt.Println("CONTRACT ERROR:", er)
	}
	fmt.Printf("loaded %d packages, %d contracts in %.1fs\n", len(e.pkgs), len(e.cs.Funcs), time.Since(t0).Seconds())
	var keys []string
	for k := range e.cs.Funcs {
		if strings.Contains(k, *pat) {
			keys = append(keys, k)
		}
	}
	sort.Strings(keys)
	results := make([]*FuncResult, len(keys))
	done := make(chan int)
	sem := make(chan struct{}, 12)
	for i, k := range keys {
		i, k := i, k
		go func() {
			sem <- struct{}{}
			results[i] = e.VerifyFunc(k, *timeout)
			<-sem
			done <- i
		}()
	}
	for range keys {
		<-done
	}
	total, failed := 0, 0
	keepN := 0
	for i, k := range keys {
		r := results[i]
		nf := 0
		for _, o := range r.Obls {
			total++
			if o.Status != "discharged" {
				nf++
				failed++
			}
		}
		status := "ok"
		switch {
		case r.Trusted:
			status = "trusted(no body)"
		case r.Unsupported != "":
			status = "OUTSIDE-SUBSET: " + r.Unsupported
		case nf > 0:
			status = fmt.Sprintf("FAILED %d", nf)
		}
		fmt.Printf("%-70s %4d obls %6.1fs hq=%d  %s\n", strings.TrimPrefix(k, "gonum.org/v1/gonum/"), len(r.Obls), r.Secs, r.HoudiniQ, status)
		for _, c := range r.CoverFail {
			fmt.Println("    VACUITY:", c)
		}
		for _, n := range r.Notes {
			fmt.Println("    note:", n)
		}
		for _, n := range r.Demoted {
			fmt.Println("    demoted:", n)
		}
		if *verbose {
			ords := make([]int, 0)
			for o := range r.Kept {
				ords = append(ords, o)
			}
			sort.Ints(ords)
			for _, o := range ords {
				fmt.Printf("    loop %d kept: %s\n", o, strings.Join(r.Kept[o], " ; "))
			}
		}
		for _, o := range r.Obls {
			if o.Status != "discharged" || *verbose {
				fmt.Printf("    %-10s %s  (%s %.2fs) %s %v\n", o.Status, o.Name, o.Backend, o.Secs, o.Pos, o.Answers)
				if o.Status != "discharged" && *keep {
					keepN++
					f := fmt.Sprintf("/tmp/govc-failed-%d.smt2", keepN)
					os.WriteFile(f, []byte(o.query+"(check-sat)\n(get-model)\n"), 0o644)
					fmt.Println("       query:", f)
				}
			}
		}
	}
	for _, o := range e.VerifyLemmas("", *timeout) {
		if !strings.Contains(o.Name, *pat) && *pat != "" {
			continue
		}
		total++
		if o.Status != "discharged" {
			failed++
		}
		fmt.Printf("%-70s %s (%s %.2fs) %v %s\n", o.Name, o.Status, o.Backend, o.Secs, o.Answers, o.Src)
	}
	fmt.Printf("obligations %d failed %d; solver queries %d (cached %d) solver time %.1fs; wall %.1fs\n", total, failed, statQueries, statCached, statSolverS, time.Since(t0).Seconds())
	os.RemoveAll(scratch())
}

// cmdReplay prints a violation record and re-runs its replay test, if it has one.
func cmdReplay(args []string) {
	if len(args) < 1 {
		fmt.Println("usage: govc replay <violation.json>")
		os.Exit(2)
	}
	b, err := os.ReadFile(args[0])
	if err != nil {
		fmt.Println(err)
		os.Exit(2)
	}
	var rec map[string]interface{}
	if err := json.Unmarshal(b, &rec); err != nil {
		fmt.Println(err)
		os.Exit(2)
	}
	fmt.Printf("property:   %v\nobligation: %v\nposition:   %v\nclause:     %v\nreason:     %v\nanswers:    %v\n", rec["property"], rec["obligation"], rec["position"], rec["clause"], rec["reason"], rec["solver_answers"])
	rp, ok := rec["replay"].(map[string]interface{})
	if !ok || rp["command"] == nil {
		fmt.Println("no replay test recorded for this violation (no-failing-input-found); SMT query:", rec["smt_query"])
		os.Exit(1)
	}
	fmt.Println("inputs:    ", rp["inputs"])
	fmt.Println("running:   ", rp["command"])
	cmd := exec.Command("sh", "-c", rp["command"].(string))
	cmd.Env = append(os.Environ(), "GOFLAGS=-mod=mod", "GOPROXY=off", "GOSUMDB=off", "GOTOOLCHAIN=local")
	out, _ := cmd.CombinedOutput()
	fmt.Print(string(out))
	if strings.Contains(string(out), "REPLAY-CONFIRMED") {
		os.Exit(1)
	}
	fmt.Println("the recorded inputs no longer reproduce the failure")
}
