package main

// Minimal s-expression utilities used for the syntactic decomposition of
// address polynomials (witness generation).

import "strings"

type sx struct {
	atom string
	kids []*sx
}

func parseSx(s string) *sx {
	pos := 0
	var parse func() *sx
	parse = func() *sx {
		for pos < len(s) && s[pos] == ' ' {
			pos++
		}
		if pos >= len(s) {
			return &sx{atom: ""}
		}
		if s[pos] == '(' {
			pos++
			n := &sx{}
			for {
				for pos < len(s) && s[pos] == ' ' {
					pos++
				}
				if pos >= len(s) {
					return n
				}
				if s[pos] == ')' {
					pos++
					return n
				}
				n.kids = append(n.kids, parse())
			}
		}
		st := pos
		for pos < len(s) && s[pos] != ' ' && s[pos] != '(' && s[pos] != ')' {
			pos++
		}
		return &sx{atom: s[st:pos]}
	}
	return parse()
}

func (n *sx) String() string {
	if n.kids == nil && n.atom != "" {
		return n.atom
	}
	var b strings.Builder
	b.WriteByte('(')
	for i, k := range n.kids {
		if i > 0 {
			b.WriteByte(' ')
		}
		b.WriteString(k.String())
	}
	b.WriteByte(')')
	return b.String()
}

func (n *sx) isApp(op string) bool {
	return len(n.kids) > 0 && n.kids[0].atom == op && n.kids[0].kids == nil
}

type sterm struct {
	neg bool
	t   *sx
}

// flattenSum expands a term into signed summands, looking through (+ ..),
// (- a b ..), (- a) and named definitions.
func flattenSum(n *sx, neg bool, defs map[string]string, depth int, out *[]sterm) {
	if depth > 40 {
		*out = append(*out, sterm{neg, n})
		return
	}
	if n.kids == nil {
		if d, ok := defs[n.atom]; ok {
			flattenSum(parseSx(d), neg, defs, depth+1, out)
			return
		}
		*out = append(*out, sterm{neg, n})
		return
	}
	switch {
	case n.isApp("+"):
		for _, k := range n.kids[1:] {
			flattenSum(k, neg, defs, depth+1, out)
		}
	case n.isApp("-") && len(n.kids) == 2:
		flattenSum(n.kids[1], !neg, defs, depth+1, out)
	case n.isApp("-") && len(n.kids) > 2:
		flattenSum(n.kids[1], neg, defs, depth+1, out)
		for _, k := range n.kids[2:] {
			flattenSum(k, !neg, defs, depth+1, out)
		}
	case n.isApp("*") && len(n.kids) == 3:
		// distribute a product over a sum on either side (one level)
		a, b := n.kids[1], n.kids[2]
		var as, bs []sterm
		flattenSum(a, false, defs, depth+1, &as)
		flattenSum(b, false, defs, depth+1, &bs)
		if len(as)*len(bs) > 1 && len(as)*len(bs) <= 12 {
			for _, x := range as {
				for _, y := range bs {
					*out = append(*out, sterm{neg != (x.neg != y.neg), &sx{kids: []*sx{{atom: "*"}, x.t, y.t}}})
				}
			}
			return
		}
		*out = append(*out, sterm{neg, n})
	default:
		*out = append(*out, sterm{neg, n})
	}
}

// splitByFactor separates the summands that are products containing the
// factor `sym` (returning the co-factors) from the rest.
func splitByFactor(terms []sterm, sym string) (co []sterm, rest []sterm) {
	for _, t := range terms {
		if t.t.isApp("*") && len(t.t.kids) == 3 {
			if t.t.kids[1].String() == sym {
				co = append(co, sterm{t.neg, t.t.kids[2]})
				continue
			}
			if t.t.kids[2].String() == sym {
				co = append(co, sterm{t.neg, t.t.kids[1]})
				continue
			}
		}
		if t.t.String() == sym {
			co = append(co, sterm{t.neg, &sx{atom: "1"}})
			continue
		}
		rest = append(rest, t)
	}
	return
}

func sumOf(ts []sterm) Term {
	acc := IntLit(0)
	for _, t := range ts {
		x := Term{t.t.String(), SInt}
		if t.neg {
			acc = Sub(acc, x)
		} else {
			acc = Add(acc, x)
		}
	}
	return acc
}
