package main

// `govc check`: the per-property check behind MANIFEST quick_cmd / thorough_cmd.

import (
	"bufio"
	"encoding/json"
	"flag"
	"fmt"
	"go/types"
	"os"
	"path/filepath"
	"sort"
	"strconv"
	"strings"
	"time"
)

type knownFinding struct {
	Prop string
	Obl  string // substring of the obligation name
	Text string
}

func loadKnown(path string) (known []knownFinding, fixed []string) {
	f, err := os.Open(path)
	if err != nil {
		return nil, nil
	}
	defer f.Close()
	sc := bufio.NewScanner(f)
	for sc.Scan() {
		line := strings.TrimSpace(sc.Text())
		switch {
		case strings.HasPrefix(line, "known:"):
			k := knownFinding{Text: strings.TrimSpace(line[6:])}
			for _, f := range strings.Fields(line) {
				if strings.HasPrefix(f, "property=") {
					k.Prop = f[9:]
				}
			}
			if i := strings.Index(line, "obligation="); i >= 0 {
				rest := line[i+11:]
				if strings.HasPrefix(rest, "\"") {
					if j := strings.Index(rest[1:], "\""); j >= 0 {
						k.Obl = rest[1 : 1+j]
					}
				} else {
					k.Obl = strings.Fields(rest)[0]
				}
			}
			known = append(known, k)
		case strings.HasPrefix(line, "fixed:"):
			fixed = append(fixed, line)
		}
	}
	return
}

type claimFile struct {
	Property  string         `json:"property"`
	Functions map[string]int `json:"functions"` // key -> obligations for this property when frozen
}

func hasProp(con *Contract, prop string) bool {
	for _, p := range con.Props {
		if p.ID == prop {
			return true
		}
	}
	return false
}

func oblHasProp(o *Obl, prop string) bool {
	for _, p := range o.Props {
		if p == prop {
			return true
		}
	}
	return false
}

type tierConf struct {
	oblTimeoutMs     int
	houdiniTimeoutMs int
	quickMs          int
	configs          []string
}

var tiers = map[string]tierConf{
	"quick":    {oblTimeoutMs: 10000, houdiniTimeoutMs: 2000, quickMs: 1500, configs: []string{"verif,noasm"}},
	"thorough": {oblTimeoutMs: 60000, houdiniTimeoutMs: 4000, quickMs: 3000, configs: []string{"verif,noasm", "verif", "verif,safe"}},
}

func cmdCheck(args []string) {
	fs := flag.NewFlagSet("check", flag.ExitOnError)
	repo := fs.String("repo", "/repo", "repository root")
	verif := fs.String("verif", "/verif", "verification root")
	prop := fs.String("prop", "", "property id")
	tier := fs.String("tier", "quick", "quick|thorough")
	freeze := fs.Bool("freeze", false, "rewrite claims/<prop>.json from this run")
	fs.Parse(args)
	if t := os.Getenv("VERIF_TIER"); t != "" && (t == "quick" || t == "thorough") {
		*tier = t
	}
	seed := 0
	if s := os.Getenv("VERIF_SEED"); s != "" {
		if n, err := strconv.Atoi(s); err == nil {
			seed = n
		}
	}
	// VERIF_SEED is recorded in the evidence but does not influence the run: a proof check has
	// nothing to sample, and solver random seeds that follow it would only make the same
	// obligations time out on one run and not on another. The solvers always start from seed 0;
	// undecided queries are retried with further seeds (any unsat answer is a proof).
	solverSeed = 0
	tc := tiers[*tier]
	thoroughTier = *tier == "thorough"
	t0 := time.Now()
	if os.Getenv("GOVC_NO_MEMO") == "" {
		// memoization of discharged queries between the per-property commands of one sandbox
		// (identical query text, keyed by hash and solver seed; only "unsat" answers are kept)
		diskCacheDir = filepath.Join(*verif, "out", "qcache", "seed0")
		os.MkdirAll(diskCacheDir, 0o755)
	}
	outDir := filepath.Join(*verif, "out", *prop, *tier)
	os.RemoveAll(outDir)
	os.MkdirAll(filepath.Join(outDir, "replays"), 0o755)

	known, _ := loadKnown(filepath.Join(*verif, "known_findings.txt"))
	var claims claimFile
	haveClaims := false
	if b, err := os.ReadFile(filepath.Join(*verif, "claims", *prop+".json")); err == nil {
		if json.Unmarshal(b, &claims) == nil {
			haveClaims = true
		}
	}

	type funcRun struct {
		key string
		res *FuncResult
	}
	var runs []funcRun
	var loadErrs []string
	contractErrs := []string{}
	var lemmaRes []*Obl
	for ci, cfgTags := range tc.configs {
		e := NewEngine(*repo, cfgTags)
		e.oblTimeoutMs, e.houdiniTimeoutMs, e.quickTimeoutMs = tc.oblTimeoutMs, tc.houdiniTimeoutMs, tc.quickMs
		dirs := contractDirs(*repo)
		if err := e.Load(dirs); err != nil {
			loadErrs = append(loadErrs, fmt.Sprintf("[%s] %v", cfgTags, err))
			continue
		}
		if ci == 0 {
			contractErrs = e.cs.Errors
		}
		var keys []string
		for k, con := range e.cs.Funcs {
			if !hasProp(con, *prop) {
				continue
			}
			if con.Options["tier"] == "thorough" && !thoroughTier {
				continue // functions whose obligations need more than the quick limits are decided in the thorough tier only
			}
			if ci > 0 && !e.differsFromFirst(k, tc.configs[0]) {
				continue
			}
			keys = append(keys, k)
		}
		sort.Strings(keys)
		// longest first (durations of the last frozen run): the slowest function must not be the
		// last one to start
		if tm := loadTimings(*verif); tm != nil {
			sort.SliceStable(keys, func(i, j int) bool { return tm[keys[i]] > tm[keys[j]] })
		}
		results := make([]*FuncResult, len(keys))
		done := make(chan int)
		sem := make(chan struct{}, 16)
		for i, k := range keys {
			i, k := i, k
			go func() {
				sem <- struct{}{}
				results[i] = e.VerifyFunc(k, tc.oblTimeoutMs)
				<-sem
				done <- i
			}()
		}
		for range keys {
			<-done
		}
		for i, k := range keys {
			runs = append(runs, funcRun{k + " [" + cfgTags + "]", results[i]})
		}
		if ci == 0 {
			lemmaRes = e.VerifyLemmas(*prop, tc.oblTimeoutMs)
		}
	}

	// ---- assemble ------------------------------------------------------------
	type violation struct {
		Obl    *Obl
		Reason string
	}
	var viols []violation
	var knownHits []string
	total, discharged := 0, 0
	byBackend := map[string]int{}
	byKind := map[string]int{}
	var solverS float64
	var underContract, trusted, outside []string
	var samples []map[string]interface{}
	var vacuity []string
	covers := 0
	var notes, demoted []string
	oblOut, _ := os.Create(filepath.Join(outDir, "obligations.jsonl"))
	enc := json.NewEncoder(oblOut)
	frozen := map[string]int{}
	handle := func(o *Obl) {
		total++
		byKind[o.Kind]++
		solverS += o.Secs
		enc.Encode(o)
		if o.Status == "discharged" {
			discharged++
			byBackend[o.Backend]++
			if len(samples) < 12 && !o.trivial && (total%7 == 1 || len(samples) < 3) {
				samples = append(samples, map[string]interface{}{"obligation": o.Name, "kind": o.Kind, "pos": o.Pos, "backend": o.Backend, "secs": o.Secs})
			}
			return
		}
		for _, k := range known {
			if k.Prop == *prop && k.Obl != "" && strings.Contains(o.Name, k.Obl) {
				o.Known = k.Text
				knownHits = append(knownHits, k.Text)
				total--
				byKind[o.Kind]--
				return
			}
		}
		viols = append(viols, violation{Obl: o, Reason: "obligation not discharged"})
	}
	for _, r := range runs {
		fr := r.res
		short := strings.TrimPrefix(r.key, "gonum.org/v1/gonum/")
		covers += fr.Covers
		vacuity = append(vacuity, fr.CoverFail...)
		notes = append(notes, fr.Notes...)
		demoted = append(demoted, fr.Demoted...)
		baseKey := strings.Fields(r.key)[0]
		switch {
		case fr.Trusted:
			trusted = append(trusted, short)
			continue
		case fr.Unsupported != "":
			outside = append(outside, short+": "+fr.Unsupported)
			if haveClaims {
				if _, claimed := claims.Functions[baseKey]; claimed {
					o := &Obl{Name: short + "/whole-function", Kind: "function", Func: short, Status: "failed", Src: fr.Unsupported, Props: []string{*prop}}
					reason := "claimed function can no longer be verified: " + fr.Unsupported
					if fr.Missing {
						reason = "contract-target-missing"
					}
					total++
					viols = append(viols, violation{Obl: o, Reason: reason})
				}
			}
			continue
		}
		n := 0
		for _, o := range fr.Obls {
			if oblHasProp(o, *prop) {
				handle(o)
				n++
			}
		}
		if strings.HasSuffix(r.key, "["+tc.configs[0]+"]") {
			frozen[baseKey] = n
		}
		underContract = append(underContract, fmt.Sprintf("%s (%d obligations, %.1fs)", short, n, fr.Secs))
	}
	for _, o := range lemmaRes {
		handle(o)
	}
	// claimed functions that disappeared entirely (contract removed or renamed)
	if haveClaims {
		for k := range claims.Functions {
			if _, ok := frozen[k]; !ok {
				found := false
				for _, r := range runs {
					if strings.Fields(r.key)[0] == k {
						found = true
					}
				}
				if !found {
					o := &Obl{Name: strings.TrimPrefix(k, "gonum.org/v1/gonum/") + "/whole-function", Kind: "function", Status: "failed", Src: "no contract found for claimed function", Props: []string{*prop}}
					total++
					viols = append(viols, violation{Obl: o, Reason: "contract-target-missing"})
				}
			}
		}
	}
	oblOut.Close()
	for _, v := range vacuity {
		o := &Obl{Name: "vacuity/" + v, Kind: "vacuity", Status: "failed", Src: v, Props: []string{*prop}}
		total++
		viols = append(viols, violation{Obl: o, Reason: "vacuity guard failed: " + v})
	}
	for _, le := range loadErrs {
		o := &Obl{Name: "load", Kind: "load", Status: "failed", Src: le, Props: []string{*prop}}
		total++
		viols = append(viols, violation{Obl: o, Reason: "repository does not load: " + le})
	}
	for _, ce := range contractErrs {
		o := &Obl{Name: "contract-syntax", Kind: "load", Status: "failed", Src: ce, Props: []string{*prop}}
		total++
		viols = append(viols, violation{Obl: o, Reason: "contract file error: " + ce})
	}

	if *freeze {
		tm := loadTimings(*verif)
		if tm == nil {
			tm = map[string]float64{}
		}
		for _, r := range runs {
			if r.res != nil && strings.HasSuffix(r.key, "["+tc.configs[0]+"]") {
				tm[strings.Fields(r.key)[0]] = float64(int(r.res.Secs*10)) / 10
			}
		}
		if b, err := json.MarshalIndent(tm, "", " "); err == nil {
			os.WriteFile(filepath.Join(*verif, "claims", "timings.json"), append(b, '\n'), 0o644)
		}
		os.MkdirAll(filepath.Join(*verif, "claims"), 0o755)
		cf := claimFile{Property: *prop, Functions: frozen}
		b, _ := json.MarshalIndent(cf, "", " ")
		os.WriteFile(filepath.Join(*verif, "claims", *prop+".json"), append(b, '\n'), 0o644)
	}

	// ---- replay files and report -------------------------------------------------
	sort.Strings(knownHits)
	seen := map[string]bool{}
	for _, k := range knownHits {
		if !seen[k] {
			seen[k] = true
			fmt.Printf("KNOWN-FINDING: %s\n", k)
		}
	}
	for i, v := range viols {
		rp := filepath.Join(outDir, "replays", fmt.Sprintf("violation_%03d.json", i+1))
		rec := map[string]interface{}{
			"property":       *prop,
			"obligation":     v.Obl.Name,
			"kind":           v.Obl.Kind,
			"function":       v.Obl.Func,
			"position":       v.Obl.Pos,
			"clause":         v.Obl.Src,
			"reason":         v.Reason,
			"solver_answers": v.Obl.Answers,
			"model":          v.Obl.Model,
			"config":         v.Obl.Config,
		}
		confirmed := false
		if v.Obl.eng != nil && v.Obl.key != "" && i < 12 {
			if rr := v.Obl.eng.tryReplay(v.Obl, v.Obl.key, outDir, i+1); rr != nil {
				rec["replay"] = rr
				confirmed = rr.Confirmed
			}
		}
		if v.Obl.query != "" {
			qf := filepath.Join(outDir, "replays", fmt.Sprintf("violation_%03d.smt2", i+1))
			os.WriteFile(qf, []byte(v.Obl.query+"(check-sat)\n(get-model)\n"), 0o644)
			rec["smt_query"] = qf
		}
		b, _ := json.MarshalIndent(rec, "", " ")
		os.WriteFile(rp, append(b, '\n'), 0o644)
		if confirmed {
			fmt.Printf("VIOLATION property=%s replay=%s\n", *prop, rp)
		} else {
			fmt.Printf("VIOLATION property=%s replay=%s no-failing-input-found\n", *prop, rp)
		}
		fmt.Printf("  obligation %s at %s: %s\n", v.Obl.Name, v.Obl.Pos, v.Reason)
	}

	// ---- evidence ------------------------------------------------------------------
	sort.Strings(underContract)
	ev := map[string]interface{}{
		"property_id": *prop,
		"tier":        *tier,
		"seed":        seed,
		"level":       "proof",
		"wall_s":      time.Since(t0).Seconds(),
		"violations":  len(viols),
		"coverage": map[string]interface{}{
			"obligations":                    total,
			"discharged":                     discharged,
			"checker_cmd":                    fmt.Sprintf("/verif/bin/govc check -prop %s -tier %s", *prop, *tier),
			"trusted_base":                   trustedBase(*prop),
			"functions_under_contract":       underContract,
			"functions_under_contract_count": len(underContract),
			"trusted_no_body":                trusted,
			"attempted_not_claimed":          outside,
			"by_backend":                     byBackend,
			"obligation_kinds":               byKind,
			"solver_time_s":                  solverS,
			"solver_queries":                 statQueries,
			"samples":                        samples,
			"vacuity":                        map[string]interface{}{"covers": covers, "failed": len(vacuity)},
			"configs":                        tc.configs,
			"known_findings_hit":             len(seen),
			"demoted_user_invariants":        demoted,
			"notes":                          dedup(notes),
			"rule":                           "one obligation = one SMT query (hypotheses ∧ ¬goal expected unsat) generated from the typed AST of /repo's working tree for a function under contract",
		},
		"assumptions": assumptionsFor(*prop),
	}
	os.MkdirAll(filepath.Join(*verif, "evidence"), 0o755)
	b, _ := json.MarshalIndent(ev, "", " ")
	os.WriteFile(filepath.Join(*verif, "evidence", *prop+".json"), append(b, '\n'), 0o644)
	fmt.Printf("property %s tier %s: %d functions, %d obligations, %d discharged, %d violations, %d known findings, %.1fs\n",
		*prop, *tier, len(underContract), total, discharged, len(viols), len(seen), time.Since(t0).Seconds())
	os.RemoveAll(scratch())
	if len(viols) > 0 || total == 0 {
		if total == 0 {
			fmt.Printf("VIOLATION property=%s replay=%s no-failing-input-found\n  no obligations were generated (vacuous run)\n", *prop, outDir)
		}
		os.Exit(1)
	}
}

// loadTimings: seconds per function from the last frozen runs (scheduling hint only).
func loadTimings(verif string) map[string]float64 {
	b, err := os.ReadFile(filepath.Join(verif, "claims", "timings.json"))
	if err != nil {
		return nil
	}
	var tm map[string]float64
	if json.Unmarshal(b, &tm) != nil {
		return nil
	}
	return tm
}

func dedup(ss []string) []string {
	seen := map[string]bool{}
	var out []string
	for _, s := range ss {
		if !seen[s] {
			seen[s] = true
			out = append(out, s)
		}
	}
	return out
}

// differsFromFirst: does the function's source file set differ between configs?
// (cheap approximation: only kernel packages and files with build constraints differ)
func (e *Engine) differsFromFirst(key string, first string) bool {
	con := e.cs.Funcs[key]
	pi := e.pkgs[con.Pkg]
	if pi == nil {
		return false
	}
	fname := strings.TrimPrefix(key, con.Pkg+".")
	fd := pi.funcs[fname]
	if fd == nil {
		return true
	}
	f := pi.files[fd]
	// a file with a build constraint may be configuration specific
	for _, cg := range f.Comments {
		for _, c := range cg.List {
			if strings.HasPrefix(c.Text, "//go:build") {
				return true
			}
		}
		if cg.Pos() > f.Package {
			break
		}
	}
	return false
}

func trustedBase(prop string) []string {
	return []string{
		"govc VC generator (Go semantics as implemented in /verif/govc)",
		"z3 4.8.12, z3 5.1.0, cvc5 1.0.3",
		"assembly kernels internal/asm/*/*.s (contracts assumed, bodies not verified)",
		"standard library models (math, sort, copy/append) as listed in DESIGN.md section 4",
	}
}

func assumptionsFor(prop string) []string {
	return []string{
		"A2: signed integer arithmetic treated as mathematical (no overflow) except in functions marked overflow: checked; unsigned arithmetic is modular",
		"A3: floating-point +,-,*,/ and math functions are uninterpreted (same arguments give same result); comparisons are uninterpreted predicates unless floats: ieee",
		"A3r: obligations of kind post.real / after.real (clauses tagged [real]) are decided in a second pass in which float32/float64 are the mathematical reals: no rounding, no overflow, no NaN or Inf (machine arithmetic treated as mathematical); they establish the algorithm, not its rounding behaviour",
		"A4: assembly kernels satisfy the kernel contracts (not verified; Go fallbacks are)",
		"A9: partial correctness; termination only where a decreases clause is given",
		"A10: blas64/lapack64 use the default pure-Go implementation",
		"A11: slice regions handed in by the caller (parameters, slices held by heap objects that exist at entry) have non-negative region identifiers, regions allocated during the call negative ones; pointers boxed in interface parameters refer to entry objects",
		"A12: recursive spec functions are uninterpreted functions constrained by ground unfolding and footprint-frame instances; their well-formedness is an obligation (spec.wf), their reading as the defining sum/product is the reading of their text",
		"A13: package sort is modelled (result ordered by the package's comparison; permutation of the input not tracked)",
		"A14: arithmetic on float literals and math.Sqrt of a literal are evaluated with the IEEE 754 arithmetic of the machine running the verifier",
		"A15: with option nan-axioms the IEEE rules for NaN results of + - * / are assumed for the otherwise uninterpreted operations",
		"A16: functions declared trusted in the contract files (assembly kernels, fftpack transforms and initialisers, mat.offset, interp.findSegment as a model of the library binary search, the mat workspace pool getFloat64s / putFloat64s / getInts / putInts as a fresh slice of the requested length, Cholesky.updateCond as modifying c.cond only, lapack Dlasq1 and Dlasq3 (goto)) are assumed to satisfy their contracts; they are listed under coverage.trusted_no_body when a checked function of this property depends on them",
		"A17: library models: slices.Reverse is modelled exactly (in place, element k becomes the old element len-1-k); math.Pow, Log, Exp, Sin, Cos, Sinh, ... and math.Signbit are uninterpreted functions shared by code and contracts; an unexported package variable declared without initializer and never assigned or address-taken in its package holds its zero value",
	}
}

// VerifyLemmas discharges the stand-alone lemmas of the contract files that
// are attributed to prop ("" = all).
func (e *Engine) VerifyLemmas(prop string, timeoutMs int) []*Obl {
	var out []*Obl
	for _, lm := range e.cs.Lemmas {
		if prop != "" {
			has := false
			for _, p := range lm.Props {
				if p.ID == prop {
					has = true
				}
			}
			if !has {
				continue
			}
		}
		pi := e.pkgs[lm.Pkg]
		o := &Obl{Name: e.shortPkg(lm.Pkg) + "/lemma[" + lm.Name + "]", Kind: "lemma", Func: "lemma " + lm.Name, Pos: fmt.Sprintf("%s:%d", strings.TrimPrefix(lm.File, "/repo/"), lm.Line), Src: lm.Goal.Src, Config: e.tags}
		for _, p := range lm.Props {
			o.Props = append(o.Props, p.ID)
		}
		fx := &FuncCtx{eng: e, pkg: pi.pkg, info: pi.pkg.TypesInfo, cur: pi, short: o.Name, declSet: map[string]bool{}, freshN: map[string]int{}, oblNames: map[string]int{}, cfg: e.tags, ieee: lm.Floats == "ieee", real: lm.Floats == "real"}
		fx.con = &Contract{Loops: map[int]*LoopSpec{}, Options: map[string]string{}}
		st := &State{vars: map[types.Object]Val{}, heap: map[string]Term{}, written: tFalse}
		fx.entry = st
		env := &specEnv{fx: fx, cur: st, old: st, binds: map[string]sval{}}
		func() {
			defer func() {
				if r := recover(); r != nil {
					if u, ok := r.(unsupported); ok {
						o.Status = "failed"
						o.Src = "lemma outside subset: " + u.msg
						return
					}
					panic(r)
				}
			}()
			for _, v := range lm.Vars {
				f := strings.Fields(v)
				if len(f) == 0 {
					continue
				}
				ty := "int"
				if len(f) > 1 {
					ty = f[1]
				}
				switch ty {
				case "int":
					env.binds[f[0]] = sval{fx.declConst("v_"+f[0], SInt), nil}
				case "float64":
					env.binds[f[0]] = sval{fx.declConst("v_"+f[0], SF64), types.Typ[types.Float64]}
				case "bool":
					env.binds[f[0]] = sval{fx.declConst("v_"+f[0], SBool), nil}
				case "real":
					env.binds[f[0]] = sval{fx.declConst("v_"+f[0], SReal), nil}
				default:
					fx.unsupportedf("lemma variable type %s", ty)
				}
			}
			var hyps []Term
			for _, h := range lm.Hyps {
				hyps = append(hyps, fx.specBool(env, h.Expr))
			}
			goal := fx.specBool(env, lm.Goal.Expr)
			// vacuity: hypotheses must be satisfiable
			cq := fx.buildQuery(hyps, tFalse)
			if r := solve(cq, 3000, false); r.Status == "unsat" {
				o.Status = "failed"
				o.Src = "lemma hypotheses are unsatisfiable (vacuous)"
				return
			}
			o.query = fx.buildQuery(hyps, goal)
		}()
		if o.query != "" {
			dischargeAll([]*Obl{o}, timeoutMs)
		}
		out = append(out, o)
	}
	return out
}
