package main

// SMT term construction and the solver portfolio.

import (
	"bytes"
	"context"
	"crypto/sha256"
	"encoding/hex"
	"fmt"
	"math"
	"math/big"
	"os"
	"os/exec"
	"path/filepath"
	"runtime"
	"strconv"
	"strings"
	"sync"
	"syscall"
	"time"
)

type Sort string

const (
	SInt  Sort = "Int"
	SBool Sort = "Bool"
	SF64  Sort = "F64"
	SF32  Sort = "F32"
	SC128 Sort = "C128"
	SC64  Sort = "C64"
	SReal Sort = "Real"
	SIfc  Sort = "Iface"
	SStr  Sort = "Str"
)

func ArraySort(idx, elem Sort) Sort { return Sort("(Array " + string(idx) + " " + string(elem) + ")") }

// Term is an SMT-LIB term with its sort.
type Term struct {
	S    string
	Sort Sort
}

func (t Term) String() string { return t.S }

var (
	tTrue  = Term{"true", SBool}
	tFalse = Term{"false", SBool}
)

func IntLit(n int64) Term {
	if n < 0 {
		if n == math.MinInt64 {
			return Term{"(- 9223372036854775808)", SInt}
		}
		return Term{fmt.Sprintf("(- %d)", -n), SInt}
	}
	return Term{fmt.Sprintf("%d", n), SInt}
}

func BigLit(n *big.Int) Term {
	if n.Sign() < 0 {
		return Term{"(- " + new(big.Int).Neg(n).String() + ")", SInt}
	}
	return Term{n.String(), SInt}
}

func app(sort Sort, op string, args ...Term) Term {
	var b strings.Builder
	b.WriteByte('(')
	b.WriteString(op)
	for _, a := range args {
		b.WriteByte(' ')
		b.WriteString(a.S)
	}
	b.WriteByte(')')
	return Term{b.String(), sort}
}

func isIntLit(t Term) (int64, bool) {
	if t.Sort != SInt {
		return 0, false
	}
	var n int64
	if _, err := fmt.Sscanf(t.S, "%d", &n); err == nil && fmt.Sprintf("%d", n) == t.S {
		return n, true
	}
	if strings.HasPrefix(t.S, "(- ") && strings.HasSuffix(t.S, ")") {
		in := t.S[3 : len(t.S)-1]
		if _, err := fmt.Sscanf(in, "%d", &n); err == nil && fmt.Sprintf("%d", n) == in {
			return -n, true
		}
	}
	return 0, false
}

func And(ts ...Term) Term {
	var keep []Term
	for _, t := range ts {
		if t.S == "true" {
			continue
		}
		if t.S == "false" {
			return tFalse
		}
		keep = append(keep, t)
	}
	switch len(keep) {
	case 0:
		return tTrue
	case 1:
		return keep[0]
	}
	return app(SBool, "and", keep...)
}

func Or(ts ...Term) Term {
	var keep []Term
	for _, t := range ts {
		if t.S == "false" {
			continue
		}
		if t.S == "true" {
			return tTrue
		}
		keep = append(keep, t)
	}
	switch len(keep) {
	case 0:
		return tFalse
	case 1:
		return keep[0]
	}
	return app(SBool, "or", keep...)
}

func Not(t Term) Term {
	switch t.S {
	case "true":
		return tFalse
	case "false":
		return tTrue
	}
	if strings.HasPrefix(t.S, "(not ") {
		return Term{t.S[5 : len(t.S)-1], SBool}
	}
	return app(SBool, "not", t)
}

func Implies(a, b Term) Term {
	if a.S == "true" {
		return b
	}
	if a.S == "false" || b.S == "true" {
		return tTrue
	}
	return app(SBool, "=>", a, b)
}

func Ite(c, a, b Term) Term {
	if c.S == "true" {
		return a
	}
	if c.S == "false" {
		return b
	}
	if a.S == b.S {
		return a
	}
	return app(a.Sort, "ite", c, a, b)
}

func Eq(a, b Term) Term {
	if a.S == b.S {
		return tTrue
	}
	if x, ok := isIntLit(a); ok {
		if y, ok := isIntLit(b); ok {
			if x == y {
				return tTrue
			}
			return tFalse
		}
	}
	return app(SBool, "=", a, b)
}

func Add(a, b Term) Term {
	if x, ok := isIntLit(a); ok {
		if y, ok := isIntLit(b); ok {
			s := x + y
			if (s > x) == (y > 0) {
				return IntLit(s)
			}
		}
		if x == 0 {
			return b
		}
	}
	if y, ok := isIntLit(b); ok && y == 0 {
		return a
	}
	return app(SInt, "+", a, b)
}

func Sub(a, b Term) Term {
	if y, ok := isIntLit(b); ok {
		if y == 0 {
			return a
		}
		if x, ok := isIntLit(a); ok {
			s := x - y
			if (s < x) == (y > 0) {
				return IntLit(s)
			}
		}
	}
	if a.S == b.S {
		return IntLit(0)
	}
	return app(SInt, "-", a, b)
}

func Mul(a, b Term) Term {
	if x, ok := isIntLit(a); ok {
		if x == 0 {
			return IntLit(0)
		}
		if x == 1 {
			return b
		}
		if y, ok := isIntLit(b); ok {
			p := new(big.Int).Mul(big.NewInt(x), big.NewInt(y))
			return BigLit(p)
		}
	}
	if y, ok := isIntLit(b); ok {
		if y == 0 {
			return IntLit(0)
		}
		if y == 1 {
			return a
		}
	}
	return app(SInt, "*", a, b)
}

func Neg(a Term) Term {
	if x, ok := isIntLit(a); ok && x != math.MinInt64 {
		return IntLit(-x)
	}
	return app(SInt, "-", a)
}

func Lt(a, b Term) Term { return cmpFold("<", a, b) }
func Le(a, b Term) Term { return cmpFold("<=", a, b) }
func Gt(a, b Term) Term { return cmpFold(">", a, b) }
func Ge(a, b Term) Term { return cmpFold(">=", a, b) }

func cmpFold(op string, a, b Term) Term {
	if x, ok := isIntLit(a); ok {
		if y, ok := isIntLit(b); ok {
			var r bool
			switch op {
			case "<":
				r = x < y
			case "<=":
				r = x <= y
			case ">":
				r = x > y
			case ">=":
				r = x >= y
			}
			if r {
				return tTrue
			}
			return tFalse
		}
	}
	if a.S == b.S {
		if op == "<=" || op == ">=" {
			return tTrue
		}
		return tFalse
	}
	return app(SBool, op, a, b)
}

func Select(arr, idx Term, elem Sort) Term { return app(elem, "select", arr, idx) }
func Store(arr, idx, v Term) Term          { return app(arr.Sort, "store", arr, idx, v) }

var pow2 = func() [130]*big.Int {
	var p [130]*big.Int
	for i := range p {
		p[i] = new(big.Int).Lsh(big.NewInt(1), uint(i))
	}
	return p
}()

func Pow2(k int) Term { return Term{pow2[k].String(), SInt} }

// Preamble: sorts and helper functions shared by every query.
func preamble(ieee, real bool) string {
	var b strings.Builder
	b.WriteString("(set-logic ALL)\n")
	if real {
		b.WriteString("(define-sort F64 () Real)\n(define-sort F32 () Real)\n")
	} else if ieee {
		b.WriteString("(define-sort F64 () (_ FloatingPoint 11 53))\n(define-sort F32 () (_ FloatingPoint 8 24))\n")
	} else {
		b.WriteString("(declare-sort F64 0)\n(declare-sort F32 0)\n")
	}
	b.WriteString(`(declare-sort C128 0)
(declare-sort C64 0)
(declare-sort Iface 0)
(declare-sort Str 0)
(define-fun tdiv ((a Int) (b Int)) Int (ite (>= a 0) (ite (> b 0) (div a b) (- (div a (- b)))) (ite (> b 0) (- (div (- a) b)) (div (- a) (- b)))))
(define-fun tmod ((a Int) (b Int)) Int (- a (* b (tdiv a b))))
(define-fun iabs ((a Int)) Int (ite (< a 0) (- a) a))
(define-fun imin ((a Int) (b Int)) Int (ite (< a b) a b))
(define-fun imax ((a Int) (b Int)) Int (ite (> a b) a b))
`)
	return b.String()
}

// ---------------------------------------------------------------------------
// Solver portfolio

type SolveResult struct {
	Status  string // "unsat", "sat", "unknown"
	Backend string
	Secs    float64
	Model   string
	Detail  map[string]string // backend -> first line
}

type solverSpec struct {
	name string
	argv func(file string, timeoutMs int, seed int) []string
}

var solvers = []solverSpec{
	{"z3-new", func(f string, ms, seed int) []string {
		return []string{"z3-new", fmt.Sprintf("-t:%d", ms), fmt.Sprintf("sat.random_seed=%d", seed), fmt.Sprintf("smt.random_seed=%d", seed), f}
	}},
	{"cvc5", func(f string, ms, seed int) []string {
		return []string{"cvc5", fmt.Sprintf("--tlimit=%d", ms), fmt.Sprintf("--seed=%d", seed), "--produce-models", f}
	}},
	{"z3", func(f string, ms, seed int) []string {
		return []string{"/usr/bin/z3", fmt.Sprintf("-t:%d", ms), fmt.Sprintf("sat.random_seed=%d", seed), fmt.Sprintf("smt.random_seed=%d", seed), f}
	}},
}

var slowLog = os.Getenv("GOVC_SLOW") != ""
var slowN int

var (
	solverSem     = make(chan struct{}, 24)
	cacheMu       sync.Mutex
	queryCache    = map[string]*SolveResult{}
	inflight      = map[string]chan struct{}{}
	scratchDir    string
	scratchOnce   sync.Once
	solverSeed    int
	statMu        sync.Mutex
	statQueries   int
	statCached    int
	statSolverS   float64
	statDisk      int
	diskCacheDir  string
	solverErrOnce sync.Once
)

func scratch() string {
	scratchOnce.Do(func() {
		d, err := os.MkdirTemp("", "govc-q-")
		if err != nil {
			panic(err)
		}
		scratchDir = d
	})
	return scratchDir
}

func runOne(ctx context.Context, sp solverSpec, file string, timeoutMs int) (status string, out string, secs float64) {
	return runOneSeed(ctx, sp, file, timeoutMs, solverSeed)
}

// solveRetry: last attempt for an undecided query: all solvers, several random
// seeds, a longer time limit. Any "unsat" is a proof; "sat" is only accepted
// from the base seed run (models are what replay uses).
func solveRetry(query string, timeoutMs int) *SolveResult {
	file := filepath.Join(scratch(), fmt.Sprintf("retry-%x.smt2", sha256.Sum256([]byte(query)))[:60]+".smt2")
	if err := os.WriteFile(file, []byte(query+"(check-sat)\n(get-model)\n"), 0o644); err != nil {
		panic(err)
	}
	defer os.Remove(file)
	res := &SolveResult{Status: "unknown", Detail: map[string]string{}}
	t0 := time.Now()
	type r struct {
		name, st, out string
	}
	ctx, cancel := context.WithCancel(context.Background())
	defer cancel()
	seeds := []int{solverSeed, solverSeed + 1, solverSeed + 2}
	ch := make(chan r, len(solvers)*len(seeds)+4)
	for _, sp := range solvers {
		for _, sd := range seeds {
			sp, sd := sp, sd
			go func() {
				st, out, _ := runOneSeed(ctx, sp, file, timeoutMs, sd)
				ch <- r{fmt.Sprintf("%s (retry, seed %d)", sp.name, sd), st, out}
			}()
		}
	}
	total := len(solvers) * len(seeds)
	if lite, ok := liteQuery(query); ok {
		lfile := file + "-lite.smt2"
		if err := os.WriteFile(lfile, []byte(lite+"(check-sat)\n"), 0o644); err != nil {
			panic(err)
		}
		defer os.Remove(lfile)
		for _, sp := range solvers[:2] {
			for _, sd := range seeds[:2] {
				sp, sd := sp, sd
				total++
				go func() {
					st, out, _ := runOneSeed(ctx, sp, lfile, timeoutMs, sd)
					if st != "unsat" {
						st = "unknown"
					}
					ch <- r{fmt.Sprintf("%s (retry, seed %d, hypotheses without hint instances)", sp.name, sd), st, out}
				}()
			}
		}
	}
	for i := 0; i < total; i++ {
		x := <-ch
		if res.Status != "unknown" {
			continue
		}
		res.Detail[x.name] = firstLine(x.out)
		if x.st == "unsat" || x.st == "sat" {
			res.Status, res.Backend = x.st, x.name
			if x.st == "sat" {
				res.Model = x.out
			}
			cancel()
		}
	}
	res.Secs = time.Since(t0).Seconds()
	statMu.Lock()
	statQueries++
	statSolverS += res.Secs
	statMu.Unlock()
	return res
}

// loadFactor stretches wall-clock solver limits when the machine is oversubscribed (other
// verifier runs, test suites): a limit that is generous on an idle machine must not turn into
// an "unknown" - and from there into a dropped invariant or an alarm - because the solver got
// a third of a core. 1 on an idle machine, at most 4.
func loadFactor() float64 {
	b, err := os.ReadFile("/proc/loadavg")
	if err != nil {
		return 1
	}
	f := strings.Fields(string(b))
	if len(f) == 0 {
		return 1
	}
	l, err := strconv.ParseFloat(f[0], 64)
	if err != nil {
		return 1
	}
	x := l / float64(runtime.NumCPU())
	if x < 1 {
		return 1
	}
	if x > 4 {
		return 4
	}
	return x
}

// acquireGlobalSlot takes one of the machine-wide solver slots (advisory file locks under the
// system temp directory; a run that cannot create them is not limited). nil: cancelled.
func acquireGlobalSlot(ctx context.Context) func() {
	n := runtime.NumCPU() + runtime.NumCPU()/4
	dir := filepath.Join(os.TempDir(), "govc-slots")
	if err := os.MkdirAll(dir, 0o777); err != nil {
		return func() {}
	}
	start := int(time.Now().UnixNano() % int64(n))
	for {
		for i := 0; i < n; i++ {
			k := (start + i) % n
			f, err := os.OpenFile(filepath.Join(dir, fmt.Sprintf("slot-%d", k)), os.O_CREATE|os.O_RDWR, 0o666)
			if err != nil {
				return func() {}
			}
			if err := syscall.Flock(int(f.Fd()), syscall.LOCK_EX|syscall.LOCK_NB); err == nil {
				return func() {
					syscall.Flock(int(f.Fd()), syscall.LOCK_UN)
					f.Close()
				}
			}
			f.Close()
		}
		select {
		case <-ctx.Done():
			return nil
		case <-time.After(20 * time.Millisecond):
		}
	}
}

func runOneSeed(ctx context.Context, sp solverSpec, file string, timeoutMs int, seed int) (status string, out string, secs float64) {
	timeoutMs0 := timeoutMs
	select {
	case solverSem <- struct{}{}:
	case <-ctx.Done():
		return "unknown", "cancelled", 0
	}
	defer func() { <-solverSem }()
	// machine-wide limit on concurrent solver processes (several govc runs at once - checks,
	// contract-writing sessions - would otherwise oversubscribe the cores many times over, and
	// wall-clock solver limits would stop meaning anything)
	release := acquireGlobalSlot(ctx)
	if release == nil {
		return "unknown", "cancelled", 0
	}
	defer release()
	timeoutMs = int(float64(timeoutMs0) * loadFactor())
	cctx, cancel := context.WithTimeout(ctx, time.Duration(timeoutMs+2000)*time.Millisecond)
	defer cancel()
	argv := sp.argv(file, timeoutMs, seed)
	cmd := exec.CommandContext(cctx, argv[0], argv[1:]...)
	var buf bytes.Buffer
	cmd.Stdout = &buf
	cmd.Stderr = &buf
	t0 := time.Now()
	_ = cmd.Run()
	secs = time.Since(t0).Seconds()
	out = buf.String()
	first := strings.TrimSpace(strings.SplitN(out, "\n", 2)[0])
	switch first {
	case "unsat", "sat":
		status = first
	default:
		status = "unknown"
	}
	if strings.HasPrefix(first, "(error") && ctx.Err() == nil {
		solverErrOnce.Do(func() {
			fmt.Fprintf(os.Stderr, "SOLVER ERROR (%s on %s): %s\n", sp.name, file, firstLine(out))
		})
		keepFile(file)
	}
	return
}

const extraBegin = "; hint-instances-begin\n"
const extraEnd = "; hint-instances-end\n"

// liteQuery removes the block of hint instances from a query.
func liteQuery(q string) (string, bool) {
	i := strings.Index(q, extraBegin)
	j := strings.Index(q, extraEnd)
	if i < 0 || j < i || j-i < len(extraBegin)+2000 {
		return "", false
	}
	return q[:i] + q[j+len(extraEnd):], true
}

var keepMu sync.Mutex
var keptFiles = map[string]bool{}

func keepFile(f string) {
	keepMu.Lock()
	keptFiles[f] = true
	keepMu.Unlock()
}

// solve runs the query through the portfolio. wantModel appends (get-model).
func solve(query string, timeoutMs int, wantModel bool) *SolveResult {
	h := sha256.Sum256([]byte(query))
	key := hex.EncodeToString(h[:12])
	cacheMu.Lock()
	if r, ok := queryCache[key]; ok {
		cacheMu.Unlock()
		statMu.Lock()
		statCached++
		statMu.Unlock()
		return r
	}
	if ch, ok := inflight[key]; ok {
		cacheMu.Unlock()
		<-ch
		cacheMu.Lock()
		r := queryCache[key]
		cacheMu.Unlock()
		statMu.Lock()
		statCached++
		statMu.Unlock()
		return r
	}
	done := make(chan struct{})
	inflight[key] = done
	cacheMu.Unlock()
	defer func() {
		cacheMu.Lock()
		delete(inflight, key)
		cacheMu.Unlock()
		close(done)
	}()
	if diskCacheDir != "" {
		if b, err := os.ReadFile(filepath.Join(diskCacheDir, key)); err == nil {
			f := strings.Fields(string(b))
			if len(f) >= 3 && f[0] == "unsat" {
				secs, _ := strconv.ParseFloat(f[2], 64)
				res := &SolveResult{Status: "unsat", Backend: f[1], Secs: secs, Detail: map[string]string{f[1]: "unsat (memoized: identical query discharged earlier in this sandbox)"}}
				statMu.Lock()
				statDisk++
				statMu.Unlock()
				cacheMu.Lock()
				queryCache[key] = res
				cacheMu.Unlock()
				return res
			}
		}
	}
	file := filepath.Join(scratch(), key+".smt2")
	body := query + "(check-sat)\n"
	if wantModel {
		body += "(get-model)\n"
	}
	if err := os.WriteFile(file, []byte(body), 0o644); err != nil {
		panic(err)
	}
	res := &SolveResult{Status: "unknown", Detail: map[string]string{}}
	t0 := time.Now()
	// stage 1: z3-new with a short timeout
	short := timeoutMs / 5
	if short < 1000 {
		short = 1000
	}
	if short > timeoutMs {
		short = timeoutMs
	}
	st, out, _ := runOne(context.Background(), solvers[0], file, short)
	res.Detail["z3-new"] = firstLine(out)
	if st == "unsat" || st == "sat" {
		res.Status, res.Backend = st, "z3-new"
		if st == "sat" {
			res.Model = out
		}
	} else {
		// stage 2: race all three with the full timeout
		type r struct {
			name, st, out string
		}
		ctx, cancel := context.WithCancel(context.Background())
		ch := make(chan r, 4)
		for _, sp := range solvers {
			sp := sp
			go func() {
				st, out, _ := runOne(ctx, sp, file, timeoutMs)
				ch <- r{sp.name, st, out}
			}()
		}
		contenders := 3
		if lite, ok := liteQuery(query); ok {
			// the same query without the ground instances the generator adds as hints: a subset
			// of the hypotheses, so "unsat" is a proof of the full query; any other answer is ignored.
			contenders++
			lfile := filepath.Join(scratch(), key+"-lite.smt2")
			if err := os.WriteFile(lfile, []byte(lite+"(check-sat)\n"), 0o644); err != nil {
				panic(err)
			}
			defer os.Remove(lfile)
			go func() {
				st, out, _ := runOne(ctx, solvers[0], lfile, timeoutMs)
				if st != "unsat" {
					st = "unknown"
				}
				ch <- r{"z3-new (hypotheses without hint instances)", st, out}
			}()
		}
		for i := 0; i < contenders; i++ {
			x := <-ch
			if res.Status == "unknown" || (x.st == "unsat" || x.st == "sat") {
				if _, have := res.Detail[x.name]; !have || x.st != "unknown" {
					res.Detail[x.name] = firstLine(x.out)
				}
			}
			if res.Status == "unknown" && (x.st == "unsat" || x.st == "sat") {
				res.Status, res.Backend = x.st, x.name
				if x.st == "sat" {
					res.Model = x.out
				}
				cancel() // stop the others
			}
		}
		cancel()
	}
	res.Secs = time.Since(t0).Seconds()
	if slowLog && res.Secs > 2 {
		g := query
		if i := strings.LastIndex(query, "(assert (not "); i >= 0 {
			g = query[i:]
		}
		if len(g) > 220 {
			g = g[:220]
		}
		fmt.Fprintf(os.Stderr, "[slow] %.1fs %s %s tmo=%d %s\n", res.Secs, res.Status, res.Backend, timeoutMs, strings.TrimSpace(g))
		if os.Getenv("GOVC_SLOW") == "dump" && res.Secs > 10 {
			slowN++
			os.WriteFile(fmt.Sprintf("/tmp/govc-slow-%d.smt2", slowN), []byte(query+"(check-sat)\n"), 0o644)
		}
	}
	keepMu.Lock()
	kept := keptFiles[file]
	keepMu.Unlock()
	if !kept {
		os.Remove(file)
	}
	statMu.Lock()
	statQueries++
	statSolverS += res.Secs
	statMu.Unlock()
	if diskCacheDir != "" && res.Status == "unsat" {
		os.WriteFile(filepath.Join(diskCacheDir, key), []byte(fmt.Sprintf("unsat %s %.3f\n", res.Backend, res.Secs)), 0o644)
	}
	cacheMu.Lock()
	queryCache[key] = res
	cacheMu.Unlock()
	return res
}

func firstLine(s string) string {
	s = strings.TrimSpace(s)
	if i := strings.IndexByte(s, '\n'); i >= 0 {
		s = s[:i]
	}
	if len(s) > 200 {
		s = s[:200]
	}
	return s
}

// realLit: the exact rational value of a finite float constant.
func realLit(v float64, s Sort) Term {
	r := new(big.Rat)
	if r.SetFloat64(v) == nil {
		return Term{"0.0", s} // not reached: NaN/Inf constants are not literals
	}
	neg := r.Sign() < 0
	if neg {
		r.Neg(r)
	}
	var t string
	if r.IsInt() {
		t = r.Num().String() + ".0"
	} else {
		t = "(/ " + r.Num().String() + ".0 " + r.Denom().String() + ".0)"
	}
	if neg {
		t = "(- " + t + ")"
	}
	return Term{t, s}
}

func f64Lit(v float64, ieee bool) (Term, string) {
	bits := math.Float64bits(v)
	if ieee {
		s := fmt.Sprintf("(fp #b%d #b%011b #x%013x)", bits>>63, (bits>>52)&0x7ff, bits&((1<<52)-1))
		return Term{s, SF64}, ""
	}
	name := fmt.Sprintf("fc64_%016x", bits)
	return Term{name, SF64}, fmt.Sprintf("(declare-const %s F64)", name)
}

func f32Lit(v float32, ieee bool) (Term, string) {
	bits := math.Float32bits(v)
	if ieee {
		s := fmt.Sprintf("(fp #b%d #b%08b #b%023b)", bits>>31, (bits>>23)&0xff, bits&((1<<23)-1))
		return Term{s, SF32}, ""
	}
	name := fmt.Sprintf("fc32_%08x", bits)
	return Term{name, SF32}, fmt.Sprintf("(declare-const %s F32)", name)
}
