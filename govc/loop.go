package main

// Loops: cut at the head, Houdini-style inference of inductive invariants
// from templates and user candidates.

import (
	"fmt"
	"go/ast"
	"go/token"
	"go/types"
	"golang.org/x/tools/go/types/typeutil"
	"os"
	"sort"
	"strings"
	"sync"
)

var debugHoudini = os.Getenv("GOVC_DEBUG") != ""
var hqSeq int
var hqMu sync.Mutex

type cand struct {
	name string
	user bool
	slow bool // worth a long solver timeout (derived from an ensures clause)
	real bool // derived from a [real] ensures clause
	eval func(s *State, it Term) Term
}

type loopDesc struct {
	node      ast.Node
	label     string
	cond      ast.Expr
	post      ast.Stmt
	body      *ast.BlockStmt
	prefix    func(st *State)      // range: bind key/value at iteration start
	condT     func(st *State) Term // overrides cond
	postF     func(st *State)      // overrides post
	hidden    *types.Var
	keyObj    types.Object // range key declared by the loop (alias of the hidden counter)
	extraMods []types.Object
	ghostHeap []string
}

type modSet struct {
	vars    map[types.Object]bool
	mem     map[string][]ast.Expr // memName -> base slice expressions (nil entry = whole)
	memAll  map[string]bool
	heap    map[string]bool // heap field names (prefix match)
	heapAll bool
	allocs  bool
}

func newModSet() *modSet {
	return &modSet{vars: map[types.Object]bool{}, mem: map[string][]ast.Expr{}, memAll: map[string]bool{}, heap: map[string]bool{}}
}

// rootOf follows slicing / selector chains to the root expression.
func rootIdent(e ast.Expr) *ast.Ident {
	for {
		switch x := e.(type) {
		case *ast.Ident:
			return x
		case *ast.ParenExpr:
			e = x.X
		case *ast.SliceExpr:
			e = x.X
		case *ast.IndexExpr:
			e = x.X
		case *ast.SelectorExpr:
			e = x.X
		case *ast.StarExpr:
			e = x.X
		default:
			return nil
		}
	}
}

func (fx *FuncCtx) collectMods(ms *modSet, n ast.Node) {
	if n == nil {
		return
	}
	var lhsOf func(e ast.Expr)
	lhsOf = func(e ast.Expr) {
		switch l := e.(type) {
		case *ast.ParenExpr:
			lhsOf(l.X)
		case *ast.Ident:
			if l.Name == "_" {
				return
			}
			if obj := fx.info.ObjectOf(l); obj != nil {
				ms.vars[obj] = true
			}
		case *ast.IndexExpr:
			bt := fx.info.Types[l.X].Type
			if bt == nil {
				return
			}
			switch u := bt.Underlying().(type) {
			case *types.Slice:
				fx.noteMemWrite(ms, u.Elem(), l.X)
			case *types.Array:
				lhsOf(l.X)
			case *types.Map:
				ms.heap[mapHeapKey(u)] = true
			case *types.Pointer:
				ms.heap[heapPrefix(u.Elem())] = true
			}
		case *ast.SelectorExpr:
			sel := fx.info.Selections[l]
			if sel == nil {
				return
			}
			bt := fx.info.Types[l.X].Type
			if bt == nil {
				return
			}
			if p, ok := bt.Underlying().(*types.Pointer); ok {
				ms.heap[heapPrefix(p.Elem())+"."+sel.Obj().Name()] = true
				return
			}
			if sel.Indirect() {
				// path through an embedded pointer or pointer field: be coarse
				if id := rootIdent(l.X); id != nil {
					if obj := fx.info.ObjectOf(id); obj != nil {
						if p, ok := obj.Type().Underlying().(*types.Pointer); ok {
							ms.heap[heapPrefix(p.Elem())] = true
							return
						}
					}
				}
			}
			lhsOf(l.X)
		case *ast.StarExpr:
			if p, ok := fx.info.Types[l.X].Type.Underlying().(*types.Pointer); ok {
				ms.heap[heapPrefix(p.Elem())] = true
			}
		}
	}
	ast.Inspect(n, func(x ast.Node) bool {
		switch s := x.(type) {
		case *ast.AssignStmt:
			for _, l := range s.Lhs {
				if s.Tok == token.DEFINE {
					if id, ok := l.(*ast.Ident); ok && fx.info.Defs[id] != nil {
						continue
					}
				}
				lhsOf(l)
			}
		case *ast.IncDecStmt:
			lhsOf(s.X)
		case *ast.RangeStmt:
			if s.Tok == token.ASSIGN {
				if s.Key != nil {
					lhsOf(s.Key)
				}
				if s.Value != nil {
					lhsOf(s.Value)
				}
			}
		case *ast.CallExpr:
			fx.collectCallMods(ms, s)
		case *ast.FuncLit:
			// closures: analysed when called; their free-variable writes count
			return true
		}
		return true
	})
}

func (fx *FuncCtx) noteMemWrite(ms *modSet, elem types.Type, base ast.Expr) {
	name := memName(elem)
	if _, ok := elem.Underlying().(*types.Struct); ok {
		ms.heap["S_"+heapPrefix(elem)] = true
		return
	}
	ms.mem[name] = append(ms.mem[name], base)
}

func mapHeapKey(m *types.Map) string {
	return "M_" + smtName(types.TypeString(m, func(p *types.Package) string { return p.Name() }))
}

// modMatches: may the loop (by its modification set) change the array of that name?
func (ms *modSet) modMatches(k string) bool {
	if _, ok := ms.mem[k]; ok {
		return true
	}
	if ms.memAll[k] {
		return true
	}
	if ms.heapAll && (strings.HasPrefix(k, "H_") || strings.HasPrefix(k, "M_") || strings.HasPrefix(k, "S_")) {
		return true
	}
	for p := range ms.heap {
		if k == p || strings.HasPrefix(k, p+".") || strings.HasPrefix(k, p+"$") {
			return true
		}
	}
	return false
}

// materialiseLoopHeap makes sure that every memory / heap array the loop may modify is present in
// the pre-state before the head state is built. Arrays are materialised lazily (an absent name
// stands for the entry constant, i.e. "not modified so far"); havoc can only replace the arrays it
// finds, so an array whose first use lies inside the loop body used to keep its entry value at the
// loop head: the stores of earlier iterations were forgotten and prefix invariants over old values
// were inductive for free (unsound; reported by a contract-writing agent on mat.Dense.Copy).
// Memory arrays are found by element type; heap arrays by executing the body once in discard mode
// and recording what it touches.
func (fx *FuncCtx) materialiseLoopHeap(pre *State, ms *modSet, lf *loopFrame, ld *loopDesc, bodyDefs map[types.Object]ast.Expr, it Term) {
	needProbe := len(ms.heap) > 0 || ms.heapAll
	for name := range ms.mem {
		if _, ok := pre.heap[name]; ok {
			continue
		}
		if s, ok := memSortReg.Load(name); ok {
			fx.heapGet(pre, name, s.(Sort))
		} else {
			needProbe = true
		}
	}
	for name := range ms.memAll {
		if _, ok := pre.heap[name]; ok {
			continue
		}
		if s, ok := memSortReg.Load(name); ok {
			fx.heapGet(pre, name, s.(Sort))
		} else {
			needProbe = true
		}
	}
	if !needProbe {
		return
	}
	if fx.loopHeapKeys == nil {
		fx.loopHeapKeys = map[ast.Node][]heapDecl{}
	}
	add := func(ds []heapDecl) bool {
		added := false
		for _, d := range ds {
			if _, ok := pre.heap[d.name]; ok {
				continue
			}
			if ms.modMatches(d.name) {
				fx.heapGet(pre, d.name, d.sort)
				added = true
			}
		}
		return added
	}
	if ks, ok := fx.loopHeapKeys[ld.node]; ok {
		add(ks)
		return
	}
	var all []heapDecl
	for round := 0; round < 4; round++ {
		n0 := len(fx.heapDeclLog)
		snap := fx.snapshot()
		fx.discard++
		fx.probing++
		exitsBefore := len(fx.exits)
		fx.loops = append(fx.loops, lf)
		fx.declare(fmt.Sprintf("(declare-const %s Int)", it.S))
		head := fx.havoc(pre, ms, lf, bodyDefs)
		head.assume(Ge(it, IntLit(0)))
		fx.loopBody(head, ld, lf, nil)
		fx.loops = fx.loops[:len(fx.loops)-1]
		fx.exits = fx.exits[:exitsBefore]
		fx.probing--
		fx.discard--
		seen := append([]heapDecl(nil), fx.heapDeclLog[n0:]...)
		fx.heapDeclLog = fx.heapDeclLog[:n0]
		fx.restore(snap)
		all = append(all, seen...)
		if !add(seen) {
			break
		}
	}
	fx.loopHeapKeys[ld.node] = all
}

// havoc builds the loop-head state from the pre-state.
func (fx *FuncCtx) havoc(pre *State, ms *modSet, lf *loopFrame, bodyDefs map[types.Object]ast.Expr) *State {
	h := pre.clone()
	if len(ms.mem) > 0 || len(ms.memAll) > 0 || len(ms.heap) > 0 || ms.heapAll {
		// earlier iterations may have stored to caller-visible memory: whether anything has been
		// written is unknown at the loop head (and therefore after the loop). Cloning the flag from
		// the pre-state made "panics before any write" hold trivially for a panic that follows a
		// loop with stores (reported by a contract-writing agent on stat.Histogram).
		w := fx.freshConst(fmt.Sprintf("written@L%d", lf.ord), SBool)
		h.written = fx.define("written", Or(pre.written, w))
	}
	if pre.allocTop.S != "" {
		// earlier iterations may have allocated objects
		h.allocTop = fx.freshConst(fmt.Sprintf("alloctop@L%d", lf.ord), SInt)
		h.assume(Ge(h.allocTop, pre.allocTop))
	}
	objs := make([]types.Object, 0, len(ms.vars))
	for o := range ms.vars {
		if _, ok := pre.vars[o]; ok {
			objs = append(objs, o)
		}
	}
	sort.Slice(objs, func(i, j int) bool { return objs[i].Pos() < objs[j].Pos() })
	for _, o := range objs {
		if hv, ok := pre.vars[o].(heapVar); ok {
			v, facts := fx.freshValAny(fmt.Sprintf("%s@L%d", o.Name(), lf.ord), o.Type())
			fx.storeHeap(h, hv.prefix, hv.ref, o.Type(), v)
			for _, f := range facts {
				h.assume(f)
			}
			continue
		}
		v, facts := fx.freshValAny(fmt.Sprintf("%s@L%d", o.Name(), lf.ord), o.Type())
		// slices keep being slices of some region; nothing else is known
		fx.refFacts(h, v)
		h.vars[o] = v
		for _, f := range facts {
			h.assume(f)
		}
	}
	// memory
	names := make([]string, 0, len(ms.mem))
	for k := range ms.mem {
		names = append(names, k)
	}
	sort.Strings(names)
	for _, name := range names {
		bases := ms.mem[name]
		whole := ms.memAll[name]
		var rids []Term
		seen := map[string]bool{}
		for _, b := range bases {
			rid, ok := fx.baseRid(pre, b, bodyDefs, 0)
			if !ok {
				whole = true
				break
			}
			if rid.S == "" { // region allocated inside the loop
				continue
			}
			if !seen[rid.S] {
				seen[rid.S] = true
				rids = append(rids, rid)
			}
		}
		cur, ok := pre.heap[name]
		if !ok {
			// find sort from any existing declaration: defer to first use
			continue
		}
		if whole {
			h.heap[name] = fx.freshConst(fmt.Sprintf("%s@L%d", name, lf.ord), cur.Sort)
			lf.memHavoc[name] = nil
			continue
		}
		m := cur
		rowSort := Sort(strings.TrimSuffix(strings.TrimPrefix(string(cur.Sort), "(Array Int "), ")"))
		var rs []string
		for _, r := range rids {
			row := fx.freshConst(fmt.Sprintf("%s@L%d_row", name, lf.ord), rowSort)
			m = Store(m, r, row)
			rs = append(rs, r.S)
		}
		h.heap[name] = fx.define(name, m)
		lf.memHavoc[name] = rs
	}
	// heap fields
	hk := make([]string, 0, len(ms.heap))
	for k := range ms.heap {
		hk = append(hk, k)
	}
	sort.Strings(hk)
	for _, k := range sortedKeys(pre.heap) {
		hit := ms.heapAll && (strings.HasPrefix(k, "H_") || strings.HasPrefix(k, "M_") || strings.HasPrefix(k, "S_"))
		for _, p := range hk {
			if k == p || strings.HasPrefix(k, p+".") || strings.HasPrefix(k, p+"$") {
				hit = true
			}
		}
		if hit {
			h.heap[k] = fx.freshConst(fmt.Sprintf("%s@L%d", k, lf.ord), pre.heap[k].Sort)
		}
	}
	return h
}

// baseRid finds the region id of the slice a store goes through, evaluated in
// the pre-state; locals defined inside the loop body are traced to their roots.
func (fx *FuncCtx) baseRid(pre *State, base ast.Expr, bodyDefs map[types.Object]ast.Expr, depth int) (Term, bool) {
	if depth > 6 {
		return Term{}, false
	}
	switch b := base.(type) {
	case *ast.ParenExpr:
		return fx.baseRid(pre, b.X, bodyDefs, depth)
	case *ast.SliceExpr:
		return fx.baseRid(pre, b.X, bodyDefs, depth)
	case *ast.Ident:
		obj := fx.info.ObjectOf(b)
		if v, ok := pre.vars[obj]; ok {
			if _, isMod := v.(SliceV); isMod {
				if def, ok := bodyDefs[obj]; ok && def != nil {
					// reassigned inside the loop: must stay in the same region
					r1, ok1 := fx.baseRid(pre, def, bodyDefs, depth+1)
					if !ok1 {
						return Term{}, false
					}
					if r1.S != v.(SliceV).Rid.S {
						return Term{}, false
					}
				}
				return v.(SliceV).Rid, true
			}
			if hv, ok := v.(heapVar); ok {
				if sv, ok := fx.loadHeap(pre.clone(), hv.prefix, hv.ref, obj.Type()).(SliceV); ok {
					return sv.Rid, true
				}
			}
			return Term{}, false
		}
		if def, ok := bodyDefs[obj]; ok {
			if def == nil {
				return Term{}, false
			}
			if call, ok := def.(*ast.CallExpr); ok {
				if id, ok := call.Fun.(*ast.Ident); ok && id.Name == "make" {
					return Term{}, true // fresh region
				}
			}
			return fx.baseRid(pre, def, bodyDefs, depth+1)
		}
	case *ast.SelectorExpr:
		// field of a struct value / pointer: evaluate in a scratch state
		var out Term
		ok := func() (ok bool) {
			defer func() {
				if r := recover(); r != nil {
					if _, is := r.(unsupported); !is {
						panic(r)
					}
					ok = false
				}
			}()
			fx.discard++
			defer func() { fx.discard-- }()
			v := fx.eval(pre.clone(), b)
			if sv, is := v.(SliceV); is {
				out = sv.Rid
				return true
			}
			return false
		}()
		if ok {
			// the field itself must not be reassigned in the loop (checked by caller through ms.vars/heap)
			return out, true
		}
	}
	return Term{}, false
}

// bodyDefinitions maps locals declared inside the loop body to their (single)
// defining expression, nil when there are several or none.
func (fx *FuncCtx) bodyDefinitions(n ast.Node) map[types.Object]ast.Expr {
	defs := map[types.Object]ast.Expr{}
	count := map[types.Object]int{}
	ast.Inspect(n, func(x ast.Node) bool {
		switch s := x.(type) {
		case *ast.AssignStmt:
			if len(s.Lhs) == len(s.Rhs) {
				for i, l := range s.Lhs {
					if id, ok := l.(*ast.Ident); ok {
						if obj := fx.info.ObjectOf(id); obj != nil {
							if _, isSlice := obj.Type().Underlying().(*types.Slice); isSlice {
								count[obj]++
								defs[obj] = s.Rhs[i]
							}
						}
					}
				}
			}
		}
		return true
	})
	for o, c := range count {
		if c > 1 {
			// several definitions: accept only if all have the same root
			defs[o] = nil
		}
	}
	return defs
}

func (fx *FuncCtx) loopOrdinal(n ast.Node) int {
	if fx.loopOrd == nil {
		fx.loopOrd = map[ast.Node]int{}
		k := 0
		ast.Inspect(fx.decl, func(x ast.Node) bool {
			switch x.(type) {
			case *ast.ForStmt, *ast.RangeStmt:
				k++
				fx.loopOrd[x] = k
			}
			return true
		})
	}
	return fx.loopOrd[n]
}

func (fx *FuncCtx) execFor(st *State, x *ast.ForStmt, label string) Flow {
	var fl Flow
	if x.Init != nil {
		r := fx.execStmt(st, x.Init)
		fl.absorb(r)
		if r.normal == nil {
			return fl
		}
		st = r.normal
	}
	r := fx.execLoop(st, &loopDesc{node: x, label: label, cond: x.Cond, post: x.Post, body: x.Body})
	fl.absorb(r)
	fl.normal = r.normal
	return fl
}

var hiddenVars = map[ast.Node]*types.Var{}

func (fx *FuncCtx) hiddenVar(n ast.Node, name string) *types.Var {
	fx.eng.mu.Lock()
	defer fx.eng.mu.Unlock()
	if v, ok := hiddenVars[n]; ok {
		return v
	}
	v := types.NewVar(n.Pos(), fx.pkg.Types, name, types.Typ[types.Int])
	hiddenVars[n] = v
	return v
}

func (fx *FuncCtx) execRange(st *State, x *ast.RangeStmt, label string) Flow {
	xt := fx.typeOf(x.X)
	hid := fx.hiddenVar(x, fmt.Sprintf("#r%d", fx.loopOrdinal(x)))
	rv := fx.eval(st, x.X)
	if fx.isDead(st) {
		return Flow{}
	}
	st.vars[hid] = IntLit(0)
	var n Term
	var valueAt func(s *State, i Term) Val
	var keyT, valT types.Type
	keyT = types.Typ[types.Int]
	switch r := rv.(type) {
	case SliceV:
		n = r.Len
		valT = r.Elem
		valueAt = func(s *State, i Term) Val {
			fx.noteRead(s, r, i, x)
			return fx.memRead(s, r, i)
		}
	case ArrayV:
		n = IntLit(r.T.Len())
		valT = r.T.Elem()
		valueAt = func(s *State, i Term) Val {
			return fx.wrapElem(Select(r.Arr, i, scalarSort(r.T.Elem())), r.T.Elem())
		}
	case Term:
		if _, ok := intInfo(xt); !ok {
			fx.unsupportedf("range over %s", xt)
		}
		n = r
		keyT = xt
	case MapV:
		return fx.execRangeMap(st, x, r, label)
	case StrV:
		if x.Value != nil && !isBlank(x.Value) {
			fx.unsupportedf("range over string with rune value")
		}
		fx.unsupportedf("range over string")
	case PtrV:
		if at, ok := r.Elem.Underlying().(*types.Array); ok {
			n = IntLit(at.Len())
			valT = at.Elem()
			valueAt = func(s *State, i Term) Val {
				arr := fx.loadHeap(s, heapPrefix(r.Elem), r.Ref, r.Elem).(ArrayV)
				return fx.wrapElem(Select(arr.Arr, i, scalarSort(at.Elem())), at.Elem())
			}
			break
		}
		fx.unsupportedf("range over %s", xt)
	default:
		fx.unsupportedf("range over %s", xt)
	}
	_ = keyT
	_ = valT
	ld := &loopDesc{node: x, label: label, body: x.Body, hidden: hid}
	ld.condT = func(s *State) Term { return Lt(s.vars[hid].(Term), n) }
	ld.prefix = func(s *State) {
		i := s.vars[hid].(Term)
		if x.Key != nil && !isBlank(x.Key) {
			if x.Tok == token.DEFINE {
				fx.bind(s, fx.info.Defs[x.Key.(*ast.Ident)], i)
			} else {
				fx.assignTo(s, x.Key, i, fx.typeOf(x.Key))
			}
		}
		if x.Value != nil && !isBlank(x.Value) {
			v := valueAt(s, i)
			if x.Tok == token.DEFINE {
				fx.bind(s, fx.info.Defs[x.Value.(*ast.Ident)], v)
			} else {
				fx.assignTo(s, x.Value, v, fx.typeOf(x.Value))
			}
		}
	}
	ld.postF = func(s *State) { s.vars[hid] = Add(s.vars[hid].(Term), IntLit(1)) }
	if x.Key != nil && !isBlank(x.Key) && x.Tok == token.DEFINE {
		ld.keyObj = fx.info.Defs[x.Key.(*ast.Ident)]
	}
	ld.extraMods = []types.Object{hid}
	if x.Tok == token.ASSIGN {
		for _, e := range []ast.Expr{x.Key, x.Value} {
			if e != nil && !isBlank(e) {
				if id, ok := e.(*ast.Ident); ok {
					ld.extraMods = append(ld.extraMods, fx.info.ObjectOf(id))
				}
			}
		}
	}
	fl := fx.execLoop(st, ld)
	if fl.normal != nil {
		delete(fl.normal.vars, hid)
	}
	return fl
}

func isBlank(e ast.Expr) bool {
	id, ok := e.(*ast.Ident)
	return ok && id.Name == "_"
}

// linear update analysis ------------------------------------------------------

type updSite struct {
	top  bool     // at the top level of the loop body (executed exactly once per iteration)
	sign int      // +1 / -1
	step ast.Expr // nil = literal 1
	ok   bool
}

func (fx *FuncCtx) updateSites(ld *loopDesc) map[types.Object][]updSite {
	sites := map[types.Object][]updSite{}
	var visit func(n ast.Node, top bool)
	record := func(lhs ast.Expr, s updSite) {
		id, ok := lhs.(*ast.Ident)
		if !ok {
			return
		}
		obj := fx.info.ObjectOf(id)
		if obj == nil {
			return
		}
		sites[obj] = append(sites[obj], s)
	}
	visitStmt := func(s ast.Stmt, top bool) {
		switch x := s.(type) {
		case *ast.IncDecStmt:
			sg := 1
			if x.Tok == token.DEC {
				sg = -1
			}
			record(x.X, updSite{top: top, sign: sg, ok: true})
		case *ast.AssignStmt:
			if len(x.Lhs) == 1 && len(x.Rhs) == 1 {
				switch x.Tok {
				case token.ADD_ASSIGN:
					record(x.Lhs[0], updSite{top: top, sign: 1, step: x.Rhs[0], ok: true})
					return
				case token.SUB_ASSIGN:
					record(x.Lhs[0], updSite{top: top, sign: -1, step: x.Rhs[0], ok: true})
					return
				case token.ASSIGN:
					// v = v + c / v = v - c
					if be, ok := x.Rhs[0].(*ast.BinaryExpr); ok {
						if li, ok := x.Lhs[0].(*ast.Ident); ok {
							if bi, ok := be.X.(*ast.Ident); ok && bi.Name == li.Name && fx.info.ObjectOf(bi) == fx.info.ObjectOf(li) {
								if be.Op == token.ADD {
									record(x.Lhs[0], updSite{top: top, sign: 1, step: be.Y, ok: true})
									return
								}
								if be.Op == token.SUB {
									record(x.Lhs[0], updSite{top: top, sign: -1, step: be.Y, ok: true})
									return
								}
							}
						}
					}
				}
			}
			if x.Tok != token.DEFINE {
				for _, l := range x.Lhs {
					record(l, updSite{top: top})
				}
			} else {
				for _, l := range x.Lhs {
					if id, ok := l.(*ast.Ident); ok && fx.info.Defs[id] == nil {
						record(l, updSite{top: top})
					}
				}
			}
		}
	}
	visit = func(n ast.Node, top bool) {
		switch x := n.(type) {
		case nil:
		case *ast.BlockStmt:
			for _, s := range x.List {
				visit(s, top)
			}
		case *ast.IfStmt:
			visit(x.Init, false)
			visit(x.Body, false)
			if x.Else != nil {
				visit(x.Else, false)
			}
		case *ast.ForStmt:
			visit(x.Init, false)
			visit(x.Post, false)
			visit(x.Body, false)
		case *ast.RangeStmt:
			if x.Tok == token.ASSIGN {
				if x.Key != nil {
					record(x.Key, updSite{})
				}
				if x.Value != nil {
					record(x.Value, updSite{})
				}
			}
			visit(x.Body, false)
		case *ast.SwitchStmt:
			visit(x.Init, false)
			visit(x.Body, false)
		case *ast.TypeSwitchStmt:
			visit(x.Body, false)
		case *ast.CaseClause:
			for _, s := range x.Body {
				visit(s, false)
			}
		case *ast.LabeledStmt:
			visit(x.Stmt, top)
		case ast.Stmt:
			visitStmt(x, top)
		}
	}
	visit(ld.body, !containsContinue(ld.body))
	if ld.post != nil {
		visit(ld.post, true)
	}
	return sites
}

func containsContinue(b *ast.BlockStmt) bool {
	found := false
	var walk func(n ast.Node, depth int)
	walk = func(n ast.Node, depth int) {
		ast.Inspect(n, func(x ast.Node) bool {
			switch s := x.(type) {
			case *ast.ForStmt, *ast.RangeStmt:
				if x != n {
					// continue inside an inner loop targets that loop unless labelled
					ast.Inspect(x, func(y ast.Node) bool {
						if br, ok := y.(*ast.BranchStmt); ok && br.Tok == token.CONTINUE && br.Label != nil {
							found = true
						}
						return true
					})
					return false
				}
			case *ast.BranchStmt:
				if s.Tok == token.CONTINUE {
					found = true
				}
			case *ast.FuncLit:
				return false
			}
			return true
		})
	}
	walk(b, 0)
	return found
}

func (fx *FuncCtx) mentionsAny(e ast.Expr, ms *modSet) bool {
	hit := false
	ast.Inspect(e, func(x ast.Node) bool {
		switch y := x.(type) {
		case *ast.Ident:
			if obj := fx.info.ObjectOf(y); obj != nil && ms.vars[obj] {
				hit = true
			}
		case *ast.IndexExpr:
			// memory reads are not loop-invariant in general
			if t := fx.info.Types[y.X].Type; t != nil {
				if _, ok := t.Underlying().(*types.Slice); ok {
					hit = true
				}
				if _, ok := t.Underlying().(*types.Map); ok {
					hit = true
				}
			}
		case *ast.CallExpr:
			if id, ok := y.Fun.(*ast.Ident); ok {
				switch id.Name {
				case "len", "cap", "int", "uintptr", "uint", "int64", "uint64", "min", "max":
					return true
				}
			}
			hit = true
		case *ast.SelectorExpr:
			if sel := fx.info.Selections[y]; sel != nil && sel.Indirect() {
				hit = true
			}
			if t := fx.info.Types[y.X].Type; t != nil {
				if _, ok := t.Underlying().(*types.Pointer); ok {
					hit = true
				}
			}
		}
		return true
	})
	return hit
}

// execLoop runs one loop with inferred + user invariants.
func (fx *FuncCtx) execLoop(pre *State, ld *loopDesc) Flow {
	ord := fx.loopOrdinal(ld.node)
	var spec *LoopSpec
	if fx.con != nil && fx.inlineDepth == 0 {
		spec = fx.con.Loops[ord]
		if spec != nil && spec.Text != "" {
			head := fx.loopHeader(ld.node)
			if !strings.Contains(strings.Join(strings.Fields(head), " "), strings.Join(strings.Fields(spec.Text), " ")) {
				fx.notes = append(fx.notes, fmt.Sprintf("loop %d header changed (%q vs %q): user invariants not applied", ord, head, spec.Text))
				spec = nil
			}
		}
	}
	ms := newModSet()
	fx.collectMods(ms, ld.body)
	if ld.post != nil {
		fx.collectMods(ms, ld.post)
	}
	if ld.cond != nil {
		fx.collectMods(ms, ld.cond)
	}
	for _, o := range ld.extraMods {
		ms.vars[o] = true
	}
	if ld.keyObj != nil {
		ms.vars[ld.keyObj] = true
	}
	for _, g := range ld.ghostHeap {
		ms.heap[g] = true
	}
	bodyDefs := fx.bodyDefinitions(ld.body)

	it := Term{fmt.Sprintf("it@L%d%s", ord, fx.inlineSuffix()), SInt}
	lf := &loopFrame{ord: ord, it: it, label: ld.label, memHavoc: map[string][]string{}, pre: pre}
	if len(ld.ghostHeap) > 0 {
		lf.seenName = ld.ghostHeap[0]
	}

	fx.materialiseLoopHeap(pre, ms, lf, ld, bodyDefs, it)

	// --- candidates ---------------------------------------------------------
	var cands []cand
	sites := fx.updateSites(ld)
	objs := make([]types.Object, 0, len(ms.vars))
	for o := range ms.vars {
		if _, ok := pre.vars[o]; ok {
			objs = append(objs, o)
		}
	}
	sort.Slice(objs, func(i, j int) bool {
		if objs[i].Pos() != objs[j].Pos() {
			return objs[i].Pos() < objs[j].Pos()
		}
		return objs[i].Name() < objs[j].Name()
	})
	getInt := func(s *State, o types.Object) (Term, bool) {
		v, ok := s.vars[o]
		if !ok {
			return Term{}, false
		}
		if hv, ok := v.(heapVar); ok {
			v = fx.loadHeap(s, hv.prefix, hv.ref, o.Type())
		}
		t, ok := v.(Term)
		return t, ok && t.Sort == SInt
	}
	type linVar struct {
		obj  types.Object
		v0   Term
		step Term // signed step per iteration
	}
	var lins []linVar
	type quadVar struct {
		obj  types.Object
		v0   Term
		step ast.Expr
		sign int
	}
	var quadObjs []quadVar
	for _, o := range objs {
		o := o
		k, isInt := intInfo(o.Type())
		if !isInt {
			continue
		}
		v0, ok := getInt(pre, o)
		if !ok {
			continue
		}
		v0 = fx.define(o.Name()+"0", v0)
		if o == ld.hidden {
			cands = append(cands, cand{name: o.Name() + "==it", eval: func(s *State, it Term) Term {
				v, _ := getInt(s, o)
				return Eq(v, it)
			}})
			lins = append(lins, linVar{o, v0, IntLit(1)})
			continue
		}
		ss := sites[o]
		if len(ss) == 1 && ss[0].ok && ss[0].top && (ss[0].step == nil || !fx.mentionsAny(ss[0].step, ms)) {
			var c Term
			okStep := true
			if ss[0].step == nil {
				c = IntLit(1)
			} else {
				func() {
					defer func() {
						if r := recover(); r != nil {
							if _, is := r.(unsupported); !is {
								panic(r)
							}
							okStep = false
						}
					}()
					fx.discard++
					defer func() { fx.discard-- }()
					c = fx.evalTerm(pre.clone(), ss[0].step)
				}()
			}
			if okStep {
				if ss[0].sign < 0 {
					c = Neg(c)
				}
				c = fx.define(o.Name()+"step", c)
				lins = append(lins, linVar{o, v0, c})
				if k.signed {
					cands = append(cands, cand{name: fmt.Sprintf("%s==%s0+it*step", o.Name(), o.Name()), eval: func(s *State, it Term) Term {
						v, _ := getInt(s, o)
						return Eq(v, Add(v0, Mul(it, c)))
					}})
				} else {
					// modular arithmetic: both the wrapped and the exact form are tried
					sc := fx.signedOf(c, k)
					sv0 := v0
					cands = append(cands, cand{name: fmt.Sprintf("%s==wrap(%s0+it*step)", o.Name(), o.Name()), eval: func(s *State, it Term) Term {
						v, _ := getInt(s, o)
						return Eq(v, app(SInt, "mod", Add(sv0, Mul(it, sc)), Pow2(k.bits)))
					}})
					cands = append(cands, cand{name: fmt.Sprintf("%s==%s0+it*step", o.Name(), o.Name()), eval: func(s *State, it Term) Term {
						v, _ := getInt(s, o)
						return Eq(v, Add(sv0, Mul(it, c)))
					}})
				}
			}
		}
		// accumulator of an affine quantity (packed storage offsets): v += E with E over linear counters
		if len(ss) == 1 && ss[0].ok && ss[0].top && ss[0].step != nil && fx.mentionsAny(ss[0].step, ms) && k.signed {
			quadObjs = append(quadObjs, quadVar{o, v0, ss[0].step, ss[0].sign})
		}
		// monotonic / sign candidates
		cands = append(cands,
			cand{name: o.Name() + ">=" + o.Name() + "0", eval: func(s *State, it Term) Term { v, _ := getInt(s, o); return Ge(v, v0) }},
			cand{name: o.Name() + "<=" + o.Name() + "0", eval: func(s *State, it Term) Term { v, _ := getInt(s, o); return Le(v, v0) }},
		)
		if k.signed {
			cands = append(cands, cand{name: o.Name() + ">=0", eval: func(s *State, it Term) Term { v, _ := getInt(s, o); return Ge(v, IntLit(0)) }})
			cands = append(cands, cand{name: o.Name() + ">=-1", eval: func(s *State, it Term) Term { v, _ := getInt(s, o); return Ge(v, IntLit(-1)) }})
		}
	}
	for _, qv := range quadObjs {
		qv := qv
		// E at it=0 and at it=1: substitute the linear counters
		evalAt := func(shift int64) (Term, bool) {
			s := pre.clone()
			for _, l := range lins {
				if shift != 0 {
					s.vars[l.obj] = Add(l.v0, Mul(IntLit(shift), l.step))
				}
				if l.obj == ld.hidden && ld.keyObj != nil {
					s.vars[ld.keyObj] = Add(l.v0, Mul(IntLit(shift), l.step))
				}
			}
			var t Term
			ok := true
			func() {
				defer func() {
					if r := recover(); r != nil {
						if _, is := r.(unsupported); !is {
							panic(r)
						}
						ok = false
					}
				}()
				fx.discard++
				defer func() { fx.discard-- }()
				t = fx.evalTerm(s, qv.step)
			}()
			return t, ok && t.Sort == SInt
		}
		// the step must not mention non-linear modified variables
		onlyLin := true
		ast.Inspect(qv.step, func(n ast.Node) bool {
			if id, ok := n.(*ast.Ident); ok {
				if obj := fx.info.ObjectOf(id); obj != nil && ms.vars[obj] {
					found := obj == ld.keyObj
					for _, l := range lins {
						if l.obj == obj {
							found = true
						}
					}
					if !found {
						onlyLin = false
					}
				}
			}
			return true
		})
		if !onlyLin {
			continue
		}
		e0, ok0 := evalAt(0)
		e1, ok1 := evalAt(1)
		if !ok0 || !ok1 {
			continue
		}
		sg := IntLit(int64(qv.sign))
		e0 = fx.define(qv.obj.Name()+"E0", e0)
		dE := fx.define(qv.obj.Name()+"dE", Sub(e1, e0))
		cands = append(cands, cand{name: fmt.Sprintf("2*(%s-%s0)==±it*(2*E0+dE*(it-1))", qv.obj.Name(), qv.obj.Name()), eval: func(s *State, it Term) Term {
			v, _ := getInt(s, qv.obj)
			return Eq(Mul(IntLit(2), Sub(v, qv.v0)), Mul(sg, Mul(it, Add(Mul(IntLit(2), e0), Mul(dE, Sub(it, IntLit(1)))))))
		}})
	}
	// conditionally updated integers (e.g. "best index so far"): relate them to the counters
	for _, o := range objs {
		o := o
		if _, isInt := intInfo(o.Type()); !isInt || o == ld.hidden {
			continue
		}
		isLin := false
		for _, l := range lins {
			if l.obj == o {
				isLin = true
			}
		}
		if isLin {
			continue
		}
		v0, ok := getInt(pre, o)
		if !ok {
			continue
		}
		for _, l := range lins {
			l := l
			cands = append(cands,
				cand{name: o.Name() + "<=" + l.obj.Name(), eval: func(s *State, it Term) Term {
					v, _ := getInt(s, o)
					c, _ := getInt(s, l.obj)
					return Le(v, c)
				}},
				cand{name: o.Name() + "<=max(" + l.obj.Name() + "-1,v0)", eval: func(s *State, it Term) Term {
					v, _ := getInt(s, o)
					c, _ := getInt(s, l.obj)
					return Le(v, app(SInt, "imax", Sub(c, IntLit(1)), v0))
				}},
				cand{name: o.Name() + ">=min(" + l.obj.Name() + "+1,v0)", eval: func(s *State, it Term) Term {
					v, _ := getInt(s, o)
					c, _ := getInt(s, l.obj)
					return Ge(v, app(SInt, "imin", Add(c, IntLit(1)), v0))
				}},
			)
		}
	}
	// bounds from the loop condition
	if ld.cond != nil {
		for _, cj := range conjuncts(ld.cond) {
			cands = append(cands, fx.condCands(pre, cj, ms, getInt)...)
		}
	}
	if ld.hidden != nil {
		hid := ld.hidden
		cands = append(cands, cand{name: "range-bound", eval: func(s *State, it Term) Term {
			v, _ := getInt(s, hid)
			return And(Ge(v, IntLit(0)), ld.condOrEnd(s, v))
		}})
	}
	// candidates derived from quantified ensures clauses: forall(k, lo, hi, P) gives
	// forall(k, lo, c, P) (ascending counter c) and forall(k, c+1, hi, P) (descending)
	if fx.con != nil && fx.inlineDepth == 0 {
		for ei, en := range fx.con.Ensures {
			call, ok := en.Expr.(*ast.CallExpr)
			if !ok {
				continue
			}
			if en.Tag != "" && !fx.tagActive(en.Tag) {
				continue // e.g. [real] clauses are only meaningful in the real pass
			}
			isRealClause := isRealTag(en.Tag)
			// look through implications: P ==> forall(...)
			var antecedents []ast.Expr
			for {
				id, isId := call.Fun.(*ast.Ident)
				if isId && id.Name == "implies" && len(call.Args) == 2 {
					inner, ok := call.Args[1].(*ast.CallExpr)
					if !ok {
						break
					}
					antecedents = append(antecedents, call.Args[0])
					call = inner
					continue
				}
				break
			}
			if id, ok := call.Fun.(*ast.Ident); !ok || id.Name != "forall" || len(call.Args) != 4 {
				continue
			}
			wrap := func(q ast.Expr) ast.Expr {
				for i := len(antecedents) - 1; i >= 0; i-- {
					q = &ast.CallExpr{Fun: ast.NewIdent("implies"), Args: []ast.Expr{antecedents[i], q}}
				}
				return q
			}
			// counters: the linear variables of the loop and the iteration count itself
			tlins := append([]linVar{}, lins...)
			tlins = append(tlins, linVar{obj: nil})
			for _, l := range tlins {
				l := l
				ei := ei
				lname := "it"
				if l.obj != nil {
					lname = l.obj.Name()
					// unsigned trackers (ix, iy of the strided kernels: uintptr addresses advanced by
					// an increment) are not counters of a quantifier range; every candidate built on
					// them is refuted, at the price of the most expensive queries of the function
					if k, ok := intInfo(l.obj.Type()); ok && !k.signed {
						continue
					}
				}
				getC := func(s *State, it Term) Term {
					if l.obj == nil {
						return it
					}
					c, _ := getInt(s, l.obj)
					return c
				}
				mk := func(name string, lo, hi func(c Term, env *specEnv) ast.Expr) {
					cands = append(cands, cand{name: fmt.Sprintf("ensures%d@%s:%s", ei+1, lname, name), slow: true, real: isRealClause, eval: func(s *State, it Term) Term {
						c := getC(s, it)
						env := &specEnv{fx: fx, cur: s, old: fx.entry, binds: map[string]sval{"__c": {c, nil}}, entryParams: true, pos: ld.node.Pos()}
						q := &ast.CallExpr{Fun: call.Fun, Args: []ast.Expr{call.Args[0], lo(c, env), hi(c, env), call.Args[3]}}
						return fx.specBool(env, wrap(q))
					}})
				}
				cIdent := ast.NewIdent("__c")
				// "not yet processed cells are unchanged": for every old(X) in the body, X == old(X) on the other side of the counter
				for oi, ox := range oldSubterms(call.Args[3]) {
					ox := ox
					oi := oi
					same := &ast.CallExpr{Fun: ast.NewIdent("same"), Args: []ast.Expr{ox, &ast.CallExpr{Fun: ast.NewIdent("old"), Args: []ast.Expr{ox}}}}
					mkU := func(name string, lo, hi ast.Expr) {
						cands = append(cands, cand{name: fmt.Sprintf("ensures%d@%s:unchanged%d-%s", ei+1, lname, oi, name), slow: true, real: isRealClause, eval: func(s *State, it Term) Term {
							c := getC(s, it)
							env := &specEnv{fx: fx, cur: s, old: fx.entry, binds: map[string]sval{"__c": {c, nil}}, entryParams: true, pos: ld.node.Pos()}
							q := &ast.CallExpr{Fun: call.Fun, Args: []ast.Expr{call.Args[0], lo, hi, same}}
							return fx.specBool(env, wrap(q))
						}})
					}
					mkU("suffix", cIdent, call.Args[2])
					mkU("prefix", call.Args[1], &ast.BinaryExpr{X: cIdent, Op: token.ADD, Y: &ast.BasicLit{Kind: token.INT, Value: "1"}})
				}
				mk("prefix", func(c Term, e *specEnv) ast.Expr { return call.Args[1] }, func(c Term, e *specEnv) ast.Expr { return cIdent })
				mk("suffix", func(c Term, e *specEnv) ast.Expr {
					return &ast.BinaryExpr{X: cIdent, Op: token.ADD, Y: &ast.BasicLit{Kind: token.INT, Value: "1"}}
				}, func(c Term, e *specEnv) ast.Expr { return call.Args[2] })
			}
		}
	}
	// user invariants
	if spec != nil {
		for i, inv := range spec.Invariants {
			inv := inv
			if inv.Tag != "" && !fx.tagActive(inv.Tag) {
				continue
			}
			cands = append(cands, cand{name: fmt.Sprintf("user%d: %s", i+1, inv.Src), user: true, eval: func(s *State, it Term) Term {
				return fx.specBool(&specEnv{fx: fx, cur: s, old: fx.entry, loop: lf, it: &it, pos: ld.node.Pos()}, inv.Expr)
			}})
		}
	}

	// the real pass starts from the candidates that survived the first pass (plus the user's and
	// those derived from [real] clauses); everything is re-proved, this only prunes the search
	if fx.real && fx.keepOnly != nil {
		var cs []cand
		for _, c := range cands {
			if c.user || c.real || fx.keepOnly[c.name] {
				cs = append(cs, c)
			}
		}
		cands = cs
	}

	if fx.probing > 0 {
		cands = nil // the body is executed only to see which arrays it touches
	}

	// --- Houdini ------------------------------------------------------------
	fx.loops = append(fx.loops, lf)
	defer func() { fx.loops = fx.loops[:len(fx.loops)-1] }()

	alive := make([]bool, len(cands))
	for i := range alive {
		alive[i] = true
	}
	timeout := fx.eng.houdiniTimeoutMs
	// initiation
	{
		snap := fx.snapshot()
		fx.discard++
		var goals []Term
		var idxs []int
		var slow []bool
		for i, c := range cands {
			g, ok := fx.tryCand(c, pre.clone(), IntLit(0))
			if !ok {
				alive[i] = false
				continue
			}
			goals = append(goals, g)
			idxs = append(idxs, i)
			slow = append(slow, c.user || c.slow)
		}
		res := fx.proveAll(pre.hypTerms(), goals, timeout, slow)
		for j, ok := range res {
			if debugHoudini {
				fmt.Printf("  [houdini %s L%d init] %v %s : %s\n", fx.short, ord, ok, cands[idxs[j]].name, goals[j].S)
			}
			if !ok {
				alive[idxs[j]] = false
			}
		}
		fx.discard--
		fx.restore(snap)
	}
	rounds := 0
	for {
		rounds++
		snap := fx.snapshot()
		fx.discard++
		exitsBefore := len(fx.exits)
		head := fx.loopHead(pre, ms, lf, bodyDefs, cands, alive, it)
		end := fx.loopBody(head, ld, lf, nil)
		fx.exits = fx.exits[:exitsBefore]
		changed := false
		if end != nil {
			it1 := Add(it, IntLit(1))
			var goals []Term
			var idxs []int
			var slow []bool
			for i, c := range cands {
				if !alive[i] {
					continue
				}
				g, ok := fx.tryCand(c, end.clone(), it1)
				if !ok {
					alive[i] = false
					changed = true
					continue
				}
				goals = append(goals, g)
				idxs = append(idxs, i)
				slow = append(slow, c.user || c.slow)
			}
			res := fx.proveAll(end.hypTerms(), goals, timeout, slow)
			for j, ok := range res {
				if debugHoudini {
					fmt.Printf("  [houdini %s L%d keep r%d] %v %s : %s\n", fx.short, ord, rounds, ok, cands[idxs[j]].name, goals[j].S)
				}
				if !ok {
					alive[idxs[j]] = false
					changed = true
				}
			}
		}
		fx.discard--
		fx.restore(snap)
		if !changed || rounds > 12 {
			break
		}
	}
	var kept []string
	for i, c := range cands {
		if alive[i] {
			kept = append(kept, c.name)
		} else if c.user && fx.discard == 0 {
			fx.demoted = append(fx.demoted, fmt.Sprintf("%s loop %d: %s", fx.short, ord, c.name))
		}
	}
	if fx.discard == 0 {
		if fx.kept == nil {
			fx.kept = map[int][]string{}
		}
		fx.kept[ord] = kept
	}

	// --- final pass -----------------------------------------------------------
	head := fx.loopHead(pre, ms, lf, bodyDefs, cands, alive, it)
	var fl Flow
	var breaks []*State
	end := fx.loopBody(head, ld, lf, func(f Flow, exit *State) {
		for _, b := range f.breaks {
			if b.label == "" || b.label == ld.label {
				breaks = append(breaks, b.st)
			} else {
				fl.breaks = append(fl.breaks, b)
			}
		}
		for _, c := range f.conts {
			if c.label != "" && c.label != ld.label {
				fl.conts = append(fl.conts, c)
			}
		}
		if exit != nil {
			breaks = append(breaks, exit)
		}
	})
	if end != nil && spec != nil && spec.Decreases != nil {
		// termination measure: strictly decreases and is bounded below
		env0 := &specEnv{fx: fx, cur: head, old: fx.entry, loop: lf, it: &it, pos: ld.node.Pos()}
		m0 := fx.specTerm(env0, spec.Decreases.Expr)
		env1 := &specEnv{fx: fx, cur: end, old: fx.entry, loop: lf, it: &it, pos: ld.node.Pos()}
		m1 := fx.specTerm(env1, spec.Decreases.Expr)
		fx.oblige(end, "dec", And(Lt(m1, m0), Ge(m0, IntLit(0))), ld.node, "decreases "+spec.Decreases.Src)
	}
	fl.normal = fx.mergeStates(head, breaks)
	if fl.normal != nil && spec != nil {
		for _, a := range spec.After {
			env := &specEnv{fx: fx, cur: fl.normal, old: fx.entry, loop: lf, it: &it, pos: ld.node.Pos()}
			fx.oblige(fl.normal, "after", fx.specBool(env, a.Expr), ld.node, "ensures-after "+a.Src)
		}
	}
	return fl
}

func (ld *loopDesc) condOrEnd(s *State, v Term) Term {
	// for range loops: hidden <= n, where cond is hidden < n
	c := ld.condT(s)
	// c is (< v n): rebuild as <=
	if strings.HasPrefix(c.S, "(< ") {
		return Term{"(<= " + c.S[3:], SBool}
	}
	return tTrue
}

func (fx *FuncCtx) inlineSuffix() string {
	if fx.inlineDepth == 0 {
		return ""
	}
	return fmt.Sprintf("_i%d_%d", fx.inlineDepth, fx.freshN["inl"])
}

func (fx *FuncCtx) loopHeader(n ast.Node) string {
	switch x := n.(type) {
	case *ast.ForStmt:
		s := "for "
		if x.Init != nil || x.Post != nil {
			s += fx.src(x.Init) + "; " + fx.src(x.Cond) + "; " + fx.src(x.Post)
		} else if x.Cond != nil {
			s += fx.src(x.Cond)
		}
		return s
	case *ast.RangeStmt:
		s := "for "
		if x.Key != nil {
			s += fx.src(x.Key)
			if x.Value != nil {
				s += ", " + fx.src(x.Value)
			}
			s += " " + x.Tok.String() + " "
		}
		return s + "range " + fx.src(x.X)
	}
	return ""
}

func (fx *FuncCtx) tryCand(c cand, s *State, it Term) (t Term, ok bool) {
	defer func() {
		if r := recover(); r != nil {
			if _, is := r.(unsupported); !is {
				panic(r)
			}
			ok = false
		}
	}()
	return c.eval(s, it), true
}

// proveAll checks goals in parallel under the same hypotheses.
func (fx *FuncCtx) proveAll(hyps []Term, goals []Term, timeoutMs int, slow ...[]bool) []bool {
	res := make([]bool, len(goals))
	var slowMask []bool
	if len(slow) > 0 {
		slowMask = slow[0]
	}
	done := make(chan int, len(goals))
	for i := range goals {
		i := i
		q := ""
		if goals[i].S != "true" {
			q = fx.buildQuery(hyps, goals[i])
			if debugHoudini {
				hqMu.Lock()
				hqSeq++
				n := hqSeq
				hqMu.Unlock()
				os.WriteFile(fmt.Sprintf("/tmp/hq-%d.smt2", n), []byte(q+"(check-sat)\n"), 0o644)
				fmt.Printf("  [hq-%d] %s\n", n, firstLine(goals[i].S))
			}
		}
		go func() {
			if q == "" {
				res[i] = true
			} else {
				tmo := timeoutMs
				if slowMask != nil && i < len(slowMask) && slowMask[i] {
					tmo = timeoutMs * 12
				}
				r := solve(q, tmo, false)
				res[i] = r.Status == "unsat"
			}
			done <- i
		}()
	}
	for range goals {
		<-done
	}
	fx.houdiniQueries += len(goals)
	return res
}

func (fx *FuncCtx) loopHead(pre *State, ms *modSet, lf *loopFrame, bodyDefs map[types.Object]ast.Expr, cands []cand, alive []bool, it Term) *State {
	fx.declare(fmt.Sprintf("(declare-const %s Int)", it.S))
	head := fx.havoc(pre, ms, lf, bodyDefs)
	head.assume(Ge(it, IntLit(0)))
	for i, c := range cands {
		if !alive[i] {
			continue
		}
		if t, ok := fx.tryCand(c, head, it); ok {
			head.assume(t)
		}
	}
	return head
}

// loopBody executes guard, body and post once from the head state. It returns
// the state at the end of the iteration (nil if none). cb receives the flow of
// the body and the exit state.
func (fx *FuncCtx) loopBody(head *State, ld *loopDesc, lf *loopFrame, cb func(Flow, *State)) *State {
	var c Term
	st := head.clone()
	if ld.condT != nil {
		c = ld.condT(st)
	} else if ld.cond != nil {
		c = fx.evalTerm(st, ld.cond)
	} else {
		c = tTrue
	}
	c = fx.defineBool("lc", c)
	var exit *State
	if c.S != "true" {
		exit = st.clone()
		exit.branch(Not(c))
	}
	body := st.clone()
	body.branch(c)
	if ld.prefix != nil {
		ld.prefix(body)
	}
	r := fx.execBlock(body, ld.body.List)
	outs := []*State{r.normal}
	for _, cn := range r.conts {
		if cn.label == "" || cn.label == ld.label {
			outs = append(outs, cn.st)
		}
	}
	end := fx.mergeStates(st, outs)
	if end != nil {
		if ld.postF != nil {
			ld.postF(end)
		} else if ld.post != nil {
			pr := fx.execStmt(end, ld.post)
			end = pr.normal
		}
	}
	if cb != nil {
		cb(r, exit)
	}
	return end
}

func conjuncts(e ast.Expr) []ast.Expr {
	switch x := e.(type) {
	case *ast.ParenExpr:
		return conjuncts(x.X)
	case *ast.BinaryExpr:
		if x.Op == token.LAND {
			return append(conjuncts(x.X), conjuncts(x.Y)...)
		}
	}
	return []ast.Expr{e}
}

// condCands proposes bounds for the counter of a comparison in the loop guard.
func (fx *FuncCtx) condCands(pre *State, e ast.Expr, ms *modSet, getInt func(*State, types.Object) (Term, bool)) []cand {
	be, ok := e.(*ast.BinaryExpr)
	if !ok {
		return nil
	}
	var out []cand
	try := func(v ast.Expr, bound ast.Expr, op token.Token) {
		id, ok := v.(*ast.Ident)
		if !ok {
			// int(n) style conversions of the counter are not handled
			return
		}
		obj := fx.info.ObjectOf(id)
		if obj == nil || !ms.vars[obj] {
			return
		}
		if _, isInt := intInfo(obj.Type()); !isInt {
			return
		}
		if fx.mentionsAny(bound, ms) {
			return
		}
		var b Term
		okB := true
		func() {
			defer func() {
				if r := recover(); r != nil {
					if _, is := r.(unsupported); !is {
						panic(r)
					}
					okB = false
				}
			}()
			fx.discard++
			defer func() { fx.discard-- }()
			b = fx.evalTerm(pre.clone(), bound)
		}()
		if !okB || b.Sort != SInt {
			return
		}
		b = fx.define("bound", b)
		v0, _ := getInt(pre, obj)
		mk := func(name string, f func(v Term) Term) {
			out = append(out, cand{name: obj.Name() + name, eval: func(s *State, it Term) Term {
				vv, ok := getInt(s, obj)
				if !ok {
					return tFalse
				}
				return f(vv)
			}})
		}
		switch op {
		case token.LSS, token.NEQ:
			mk("<=bound", func(v Term) Term { return Le(v, b) })
			mk("<=max(bound,v0)", func(v Term) Term { return Le(v, app(SInt, "imax", b, v0)) })
		case token.LEQ:
			mk("<=bound+1", func(v Term) Term { return Le(v, Add(b, IntLit(1))) })
			mk("<=max(bound+1,v0)", func(v Term) Term { return Le(v, app(SInt, "imax", Add(b, IntLit(1)), v0)) })
		}
		switch op {
		case token.GTR, token.NEQ:
			mk(">=bound", func(v Term) Term { return Ge(v, b) })
			mk(">=min(bound,v0)", func(v Term) Term { return Ge(v, app(SInt, "imin", b, v0)) })
		case token.GEQ:
			mk(">=bound-1", func(v Term) Term { return Ge(v, Sub(b, IntLit(1))) })
			mk(">=min(bound-1,v0)", func(v Term) Term { return Ge(v, app(SInt, "imin", Sub(b, IntLit(1)), v0)) })
		}
	}
	flip := map[token.Token]token.Token{token.LSS: token.GTR, token.GTR: token.LSS, token.LEQ: token.GEQ, token.GEQ: token.LEQ, token.NEQ: token.NEQ}
	if _, ok := flip[be.Op]; ok {
		try(be.X, be.Y, be.Op)
		try(be.Y, be.X, flip[be.Op])
	}
	return out
}

// signedOf interprets an unsigned step as a signed quantity (uintptr(-1) etc.).
func (fx *FuncCtx) signedOf(c Term, k intKind) Term {
	return Ite(Ge(c, Pow2(k.bits-1)), Sub(c, Pow2(k.bits)), c)
}

// collectCallMods: what a call inside a loop body may modify.
func (fx *FuncCtx) collectCallMods(ms *modSet, call *ast.CallExpr) {
	if tv, ok := fx.info.Types[call.Fun]; ok && tv.IsType() {
		return
	}
	if id, ok := unparen(call.Fun).(*ast.Ident); ok {
		if _, isB := fx.info.ObjectOf(id).(*types.Builtin); isB {
			switch id.Name {
			case "copy":
				if t := fx.info.Types[call.Args[0]].Type; t != nil {
					if sl, ok := t.Underlying().(*types.Slice); ok {
						fx.noteMemWrite(ms, sl.Elem(), call.Args[0])
					}
				}
			case "delete":
				if t := fx.info.Types[call.Args[0]].Type; t != nil {
					if m, ok := t.Underlying().(*types.Map); ok {
						ms.heap[mapHeapKey(m)] = true
					}
				}
			}
			return
		}
	}
	callee := typeutil.StaticCallee(fx.info, call)
	if callee == nil {
		callee = fx.resolveIfaceCallee(call)
	}
	if callee == nil {
		// closure literal called in place: its body is part of the loop body and is scanned by the caller
		// other interface / function values: pure methods only are supported, so nothing is modified
		return
	}
	if callee.Pkg() != nil && !strings.HasPrefix(callee.Pkg().Path(), "gonum.org/v1/gonum") {
		// library models: sort.* writes its argument
		if (callee.Pkg().Path() == "sort" || callee.Pkg().Path() == "slices") && len(call.Args) > 0 {
			if t := fx.info.Types[call.Args[0]].Type; t != nil {
				if sl, ok := t.Underlying().(*types.Slice); ok {
					fx.noteMemWrite(ms, sl.Elem(), call.Args[0])
				}
			}
		}
		return
	}
	sig := callee.Type().(*types.Signature)
	argFor := func(name string) ast.Expr {
		for i := 0; i < sig.Params().Len(); i++ {
			if sig.Params().At(i).Name() == name && i < len(call.Args) {
				return call.Args[i]
			}
		}
		if sig.Recv() != nil && sig.Recv().Name() == name {
			if sel, ok := unparen(call.Fun).(*ast.SelectorExpr); ok {
				return sel.X
			}
		}
		return nil
	}
	if con := fx.eng.contractFor(funcQName(callee)); con != nil && !con.Inline {
		for _, f := range con.Writes {
			id := rootIdent(f.Slice)
			var arg ast.Expr
			if id != nil {
				arg = argFor(id.Name)
			}
			if arg == nil {
				ms.heapAll = true
				continue
			}
			t := fx.info.Types[arg].Type
			if t == nil {
				continue
			}
			if sl, ok := t.Underlying().(*types.Slice); ok {
				if _, direct := f.Slice.(*ast.Ident); direct {
					fx.noteMemWrite(ms, sl.Elem(), arg)
				} else {
					ms.memAll[memName(sl.Elem())] = true
					ms.mem[memName(sl.Elem())] = append(ms.mem[memName(sl.Elem())], arg)
				}
			} else {
				// slice reached through a struct / pointer argument (e.g. a.Data)
				ms.heapAll = true
				for _, et := range []types.Type{types.Typ[types.Float64], types.Typ[types.Float32], types.Typ[types.Int], types.Typ[types.Complex128]} {
					ms.memAll[memName(et)] = true
					if _, ok := ms.mem[memName(et)]; !ok {
						ms.mem[memName(et)] = nil
					}
				}
			}
		}
		if len(con.Modifies) > 0 {
			ms.heapAll = true
		}
		return
	}
	// inlined callee: analyse its body (recursively) and map the effects back to the arguments
	if fd, pi := fx.eng.funcDecl(callee); fd != nil && fd.Body != nil {
		if pureBody(fd) {
			return
		}
		if fx.modDepth >= 4 {
			for _, a := range call.Args {
				if t := fx.info.Types[a].Type; t != nil {
					if sl, ok := t.Underlying().(*types.Slice); ok {
						fx.noteMemWrite(ms, sl.Elem(), a)
					}
				}
			}
			ms.heapAll = true
			return
		}
		sub := newModSet()
		savedInfo, savedPkg := fx.info, fx.pkg
		fx.info, fx.pkg = pi.pkg.TypesInfo, pi.pkg
		fx.modDepth++
		fx.collectMods(sub, fd.Body)
		fx.modDepth--
		calleeInfo := fx.info
		fx.info, fx.pkg = savedInfo, savedPkg
		// heap effects are global names
		for k := range sub.heap {
			ms.heap[k] = true
		}
		if sub.heapAll {
			ms.heapAll = true
		}
		for k := range sub.memAll {
			ms.memAll[k] = true
			if _, ok := ms.mem[k]; !ok {
				ms.mem[k] = nil
			}
		}
		// memory writes: bases rooted at a parameter map to the argument; anything else is coarse
		paramIdx := map[types.Object]int{}
		recvObj := types.Object(nil)
		k := 0
		for _, f := range fd.Type.Params.List {
			for _, n := range f.Names {
				if o := calleeInfo.Defs[n]; o != nil {
					paramIdx[o] = k
				}
				k++
			}
			if len(f.Names) == 0 {
				k++
			}
		}
		if fd.Recv != nil && len(fd.Recv.List) > 0 && len(fd.Recv.List[0].Names) > 0 {
			recvObj = calleeInfo.Defs[fd.Recv.List[0].Names[0]]
		}
		for name, bases := range sub.mem {
			for _, b := range bases {
				id := rootIdent(b)
				var arg ast.Expr
				if id != nil {
					if o := calleeInfo.ObjectOf(id); o != nil {
						if i, ok := paramIdx[o]; ok && i < len(call.Args) {
							if _, direct := unparen(b).(*ast.Ident); direct || isSliceChain(b) {
								arg = call.Args[i]
							}
						}
						if o == recvObj && recvObj != nil {
							arg = nil
						}
					}
				}
				if arg != nil {
					if t := fx.info.Types[arg].Type; t != nil {
						if _, ok := t.Underlying().(*types.Slice); ok {
							ms.mem[name] = append(ms.mem[name], arg)
							continue
						}
					}
				}
				// through a field of the receiver / a local of the callee: whole memory of that element type
				ms.memAll[name] = true
				if _, ok := ms.mem[name]; !ok {
					ms.mem[name] = nil
				}
			}
		}
	}
}

// pureBody: no stores through indices/fields/pointers and no calls (besides builtins len/cap/min/max and conversions).
func pureBody(fd *ast.FuncDecl) bool {
	pure := true
	ast.Inspect(fd.Body, func(n ast.Node) bool {
		switch x := n.(type) {
		case *ast.AssignStmt:
			for _, l := range x.Lhs {
				if _, ok := l.(*ast.Ident); !ok {
					pure = false
				}
			}
		case *ast.IncDecStmt:
			if _, ok := x.X.(*ast.Ident); !ok {
				pure = false
			}
		case *ast.CallExpr:
			if id, ok := x.Fun.(*ast.Ident); ok {
				switch id.Name {
				case "len", "cap", "min", "max", "panic", "int", "float64", "uintptr", "uint", "int64", "uint64", "float32", "abs":
					return true
				}
			}
			if sel, ok := x.Fun.(*ast.SelectorExpr); ok {
				if id, ok := sel.X.(*ast.Ident); ok && id.Name == "math" {
					return true
				}
			}
			pure = false
		case *ast.GoStmt, *ast.DeferStmt:
			pure = false
		}
		return true
	})
	return pure
}

// resolveIfaceCallee resolves a method call through a blas / lapack interface
// to the default implementation's method (assumption A10).
func (fx *FuncCtx) resolveIfaceCallee(call *ast.CallExpr) *types.Func {
	sel, ok := unparen(call.Fun).(*ast.SelectorExpr)
	if !ok {
		return nil
	}
	s := fx.info.Selections[sel]
	if s == nil || s.Kind() != types.MethodVal {
		return nil
	}
	recvT := s.Recv()
	if p, ok := recvT.(*types.Pointer); ok {
		recvT = p.Elem()
	}
	named, ok := recvT.(*types.Named)
	if !ok || named.Obj().Pkg() == nil {
		return nil
	}
	target, ok := implFor[named.Obj().Pkg().Path()]
	if !ok {
		return nil
	}
	pi := fx.eng.pkgs[target]
	if pi == nil {
		return nil
	}
	obj := pi.pkg.Types.Scope().Lookup("Implementation")
	if obj == nil {
		return nil
	}
	m, _, _ := types.LookupFieldOrMethod(obj.Type(), true, pi.pkg.Types, s.Obj().Name())
	callee, _ := m.(*types.Func)
	return callee
}

// isSliceChain: expression is an identifier possibly re-sliced (x, x[a:b], x[a:b][c:]).
func isSliceChain(e ast.Expr) bool {
	for {
		switch x := e.(type) {
		case *ast.Ident:
			return true
		case *ast.ParenExpr:
			e = x.X
		case *ast.SliceExpr:
			e = x.X
		default:
			return false
		}
	}
}

// oldSubterms returns the arguments of old(...) calls inside e that read memory (index expressions).
func oldSubterms(e ast.Expr) []ast.Expr {
	var out []ast.Expr
	seen := map[string]bool{}
	ast.Inspect(e, func(n ast.Node) bool {
		if c, ok := n.(*ast.CallExpr); ok {
			if id, ok := c.Fun.(*ast.Ident); ok && id.Name == "old" && len(c.Args) == 1 {
				if _, isIdx := c.Args[0].(*ast.IndexExpr); isIdx {
					k := types.ExprString(c.Args[0])
					if !seen[k] {
						seen[k] = true
						out = append(out, c.Args[0])
					}
				}
				return false
			}
		}
		return true
	})
	return out
}
