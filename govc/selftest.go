package main

// Must-fail corpus: each mutant is a textual edit of a repository file applied
// in memory (packages.Config.Overlay); the listed function must then have at
// least one failed obligation of the expected kind. A mutant that verifies is
// an engine bug.

import (
	"flag"
	"fmt"
	"os"
	"path/filepath"
	"sort"
	"strings"
	"time"
)

type mutant struct {
	Name       string
	File       string
	Funcs      []string
	Expect     []string
	Tags       string
	Old        string
	New        string
	Harmless   bool
	Occurrence int
}

func parseMutant(path string) (*mutant, error) {
	b, err := os.ReadFile(path)
	if err != nil {
		return nil, err
	}
	m := &mutant{Name: strings.TrimSuffix(filepath.Base(path), ".mut"), Tags: "verif,noasm"}
	s := string(b)
	io := strings.Index(s, "--- old\n")
	in := strings.Index(s, "--- new\n")
	if io < 0 || in < 0 {
		return nil, fmt.Errorf("%s: missing --- old / --- new", path)
	}
	for _, l := range strings.Split(s[:io], "\n") {
		l = strings.TrimSpace(l)
		switch {
		case strings.HasPrefix(l, "file:"):
			m.File = strings.TrimSpace(l[5:])
		case strings.HasPrefix(l, "func:"):
			m.Funcs = append(m.Funcs, strings.Fields(l[5:])...)
		case strings.HasPrefix(l, "expect:"):
			m.Expect = strings.Fields(l[7:])
		case strings.HasPrefix(l, "tags:"):
			m.Tags = strings.TrimSpace(l[5:])
		case l == "harmless":
			m.Harmless = true
		case strings.HasPrefix(l, "occurrence:"):
			fmt.Sscanf(strings.TrimSpace(l[11:]), "%d", &m.Occurrence)
		}
	}
	m.Old = strings.TrimSuffix(s[io+8:in], "\n")
	m.New = strings.TrimSuffix(s[in+8:], "\n")
	return m, nil
}

func cmdSelftest(args []string) {
	fs := flag.NewFlagSet("selftest", flag.ExitOnError)
	repo := fs.String("repo", "/repo", "repository root")
	dir := fs.String("dir", "/verif/selftest/mutants", "mutant directory")
	only := fs.String("only", "", "substring filter")
	timeout := fs.Int("timeout", 10000, "per-obligation timeout (ms)")
	fs.Parse(args)
	files, _ := filepath.Glob(filepath.Join(*dir, "*.mut"))
	sort.Strings(files)
	bad := 0
	t0 := time.Now()
	for _, f := range files {
		if *only != "" && !strings.Contains(f, *only) {
			continue
		}
		m, err := parseMutant(f)
		if err != nil {
			fmt.Println("ERROR", err)
			bad++
			continue
		}
		src, err := os.ReadFile(filepath.Join(*repo, m.File))
		if err != nil {
			fmt.Println("ERROR", err)
			bad++
			continue
		}
		cnt := strings.Count(string(src), m.Old)
		if (m.Occurrence == 0 && cnt != 1) || (m.Occurrence > 0 && cnt < m.Occurrence) {
			fmt.Printf("STALE   %-40s old text occurs %d times in %s\n", m.Name, cnt, m.File)
			bad++
			continue
		}
		mutated := strings.Replace(string(src), m.Old, m.New, 1)
		if m.Occurrence > 1 {
			idx := 0
			for k := 0; k < m.Occurrence; k++ {
				j := strings.Index(string(src)[idx:], m.Old)
				idx += j
				if k < m.Occurrence-1 {
					idx += len(m.Old)
				}
			}
			mutated = string(src)[:idx] + m.New + string(src)[idx+len(m.Old):]
		}
		e := NewEngine(*repo, m.Tags)
		e.overlay = map[string][]byte{filepath.Join(*repo, m.File): []byte(mutated)}
		if err := e.Load(contractDirs(*repo)); err != nil {
			fmt.Printf("ERROR   %-40s does not load: %v\n", m.Name, err)
			bad++
			continue
		}
		var failedKinds []string
		var failedNames []string
		unsupported := ""
		for _, fn := range m.Funcs {
			key := "gonum.org/v1/gonum/" + fn
			if e.cs.Funcs[key] == nil {
				unsupported = "no contract for " + fn
				continue
			}
			r := e.VerifyFunc(key, *timeout)
			if r.Unsupported != "" {
				unsupported = r.Unsupported
			}
			for _, o := range r.Obls {
				if o.Status != "discharged" {
					failedKinds = append(failedKinds, o.Kind)
					failedNames = append(failedNames, o.Name)
				}
			}
			for range r.CoverFail {
				failedKinds = append(failedKinds, "vacuity")
			}
		}
		hit := false
		for _, k := range failedKinds {
			for _, x := range m.Expect {
				if k == x || x == "any" {
					hit = true
				}
			}
		}
		switch {
		case m.Harmless && len(failedKinds) == 0 && unsupported == "":
			fmt.Printf("ok      %-40s harmless edit still verifies\n", m.Name)
		case m.Harmless:
			fmt.Printf("ALARM   %-40s harmless edit fails: %v %s\n", m.Name, failedNames, unsupported)
			bad++
		case hit:
			fmt.Printf("ok      %-40s refuted: %s\n", m.Name, strings.Join(uniq(failedNames), "; "))
		case unsupported != "":
			fmt.Printf("ok(ns)  %-40s function left the subset: %s\n", m.Name, unsupported)
		default:
			fmt.Printf("MISSED  %-40s mutant verifies (failed kinds %v, expected %v)\n", m.Name, failedKinds, m.Expect)
			bad++
		}
	}
	fmt.Printf("selftest: %d problems, %.1fs\n", bad, time.Since(t0).Seconds())
	os.RemoveAll(scratch())
	if bad > 0 {
		os.Exit(1)
	}
}

func uniq(ss []string) []string {
	seen := map[string]bool{}
	var out []string
	for _, s := range ss {
		if !seen[s] {
			seen[s] = true
			out = append(out, s)
		}
	}
	if len(out) > 4 {
		out = append(out[:4], fmt.Sprintf("… (%d)", len(ss)))
	}
	return out
}
