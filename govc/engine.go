package main

// Loading of /repo, contract lookup, and the per-function verification driver.

import (
	"fmt"
	"go/ast"
	"go/token"
	"go/types"
	"os"
	"path/filepath"
	"sort"
	"strconv"
	"strings"
	"sync"
	"time"

	"golang.org/x/tools/go/packages"
)

type pkgInfo struct {
	pkg   *packages.Package
	funcs map[string]*ast.FuncDecl // qualified (Recv.Name) -> decl
	files map[*ast.FuncDecl]*ast.File
}

type Engine struct {
	repo             string
	tags             string
	pkgs             map[string]*pkgInfo
	cs               *ContractSet
	quickTimeoutMs   int
	houdiniTimeoutMs int
	oblTimeoutMs     int
	mu               sync.Mutex
	strs             map[string]string
	addrCache        map[types.Object]bool
	zgMu             sync.Mutex
	zgCache          map[*types.Var]bool
	addrDone         map[*ast.FuncDecl]bool
	verbose          bool
	overlay          map[string][]byte
	typeIDs          map[string]int64
	typeObjs         []types.Type
}

func NewEngine(repo, tags string) *Engine {
	return &Engine{repo: repo, tags: tags, pkgs: map[string]*pkgInfo{}, cs: NewContractSet(), quickTimeoutMs: 1500, houdiniTimeoutMs: 2000, oblTimeoutMs: 10000,
		strs: map[string]string{}, addrCache: map[types.Object]bool{}, addrDone: map[*ast.FuncDecl]bool{}}
}

// contractDirs lists package directories that hold contract files.
func contractDirs(repo string) []string {
	var out []string
	filepath.Walk(repo, func(p string, fi os.FileInfo, err error) error {
		if err != nil {
			return nil
		}
		if fi.IsDir() && (fi.Name() == ".git" || fi.Name() == "testdata") {
			return filepath.SkipDir
		}
		if !fi.IsDir() && fi.Name() == "zz_verif_contracts.go" {
			rel, _ := filepath.Rel(repo, filepath.Dir(p))
			out = append(out, "./"+rel)
		}
		return nil
	})
	sort.Strings(out)
	return out
}

func (e *Engine) Load(patterns []string) error {
	cfg := &packages.Config{
		Mode:       packages.NeedName | packages.NeedFiles | packages.NeedSyntax | packages.NeedTypes | packages.NeedTypesInfo | packages.NeedImports | packages.NeedDeps | packages.NeedCompiledGoFiles,
		Dir:        e.repo,
		BuildFlags: []string{"-tags=" + e.tags},
		Env:        append(os.Environ(), "GOFLAGS=-mod=mod", "GOPROXY=off", "GOSUMDB=off", "GOTOOLCHAIN=local"),
		Overlay:    e.overlay,
	}
	pkgs, err := packages.Load(cfg, patterns...)
	if err != nil {
		return err
	}
	var errs []string
	packages.Visit(pkgs, nil, func(p *packages.Package) {
		if !strings.HasPrefix(p.PkgPath, "gonum.org/v1/gonum") {
			return
		}
		for _, er := range p.Errors {
			errs = append(errs, er.Error())
		}
		pi := &pkgInfo{pkg: p, funcs: map[string]*ast.FuncDecl{}, files: map[*ast.FuncDecl]*ast.File{}}
		for _, f := range p.Syntax {
			for _, d := range f.Decls {
				fd, ok := d.(*ast.FuncDecl)
				if !ok {
					continue
				}
				name := fd.Name.Name
				if fd.Recv != nil && len(fd.Recv.List) > 0 {
					name = recvTypeName(fd.Recv.List[0].Type) + "." + name
				}
				pi.funcs[name] = fd
				pi.files[fd] = f
			}
			if strings.HasSuffix(p.Fset.Position(f.Pos()).Filename, "zz_verif_contracts.go") {
				e.cs.ParseContractFile(p.Fset, p.PkgPath, f)
			}
		}
		e.pkgs[p.PkgPath] = pi
	})
	if len(errs) > 0 {
		return fmt.Errorf("package errors: %s", strings.Join(errs, "; "))
	}
	e.cs.closeFrames()
	return nil
}

func recvTypeName(e ast.Expr) string {
	switch x := e.(type) {
	case *ast.StarExpr:
		return recvTypeName(x.X)
	case *ast.Ident:
		return x.Name
	case *ast.IndexExpr:
		return recvTypeName(x.X)
	case *ast.IndexListExpr:
		return recvTypeName(x.X)
	case *ast.ParenExpr:
		return recvTypeName(x.X)
	}
	return "?"
}

func (e *Engine) contractFor(qname string) *Contract { return e.cs.Funcs[qname] }

func (e *Engine) funcDecl(f *types.Func) (*ast.FuncDecl, *pkgInfo) {
	if f.Pkg() == nil {
		return nil, nil
	}
	pi := e.pkgs[f.Pkg().Path()]
	if pi == nil {
		return nil, nil
	}
	qn := strings.TrimPrefix(funcQName(f), f.Pkg().Path()+".")
	fd := pi.funcs[qn]
	if fd == nil {
		return nil, nil
	}
	return fd, pi
}

func (e *Engine) strConst(s string) string {
	e.mu.Lock()
	defer e.mu.Unlock()
	if id, ok := e.strs[s]; ok {
		return id
	}
	id := fmt.Sprintf("str_%d", len(e.strs))
	e.strs[s] = id
	return id
}

func (e *Engine) globalDecls(fx *FuncCtx) []string {
	// distinctness of the string literals used by this function
	var ids []string
	for d := range fx.declSet {
		if strings.HasPrefix(d, "(declare-const str_") {
			ids = append(ids, strings.Fields(d)[1])
		}
	}
	if len(ids) < 2 {
		return nil
	}
	sort.Strings(ids)
	return nil // emitted after declarations: see distinctStrings
}

func (fx *FuncCtx) distinctStrings() string {
	var ids []string
	for _, d := range fx.decls {
		if strings.HasPrefix(d, "(declare-const str_") {
			ids = append(ids, strings.Fields(d)[1])
		}
	}
	if len(ids) < 2 {
		return ""
	}
	return "(assert (distinct " + strings.Join(ids, " ") + "))\n"
}

func (e *Engine) globalVals(fx *FuncCtx, key string, vr *types.Var) (Val, bool) {
	// stable constant per package variable within a function context
	if fx.globals == nil {
		fx.globals = map[string]Val{}
	}
	if v, ok := fx.globals[key]; ok {
		return v, true
	}
	if e.zeroGlobal(vr) {
		// unexported, declared without initializer, never assigned and never address-taken in its
		// package: it holds the zero value for ever (quat's `zero`)
		v := fx.zeroVal(vr.Type())
		fx.globals[key] = v
		return v, true
	}
	n0 := len(fx.decls)
	v, facts := fx.freshVal(key, vr.Type())
	// declarations of package-level values are permanent (not rolled back by Houdini snapshots)
	for _, d := range fx.decls[n0:] {
		fx.permDecls = append(fx.permDecls, d)
	}
	fx.decls = fx.decls[:n0]
	fx.globals[key] = v
	fx.globalFacts = append(fx.globalFacts, facts...)
	if iv, ok := v.(IfaceV); ok && e.initializedNonNil(vr) {
		fx.permDecls = append(fx.permDecls, "(declare-const nilIface Iface)")
		fx.declSet["(declare-const nilIface Iface)"] = true
		fx.globalFacts = append(fx.globalFacts, Not(Eq(iv.T, Term{"nilIface", SIfc})))
	}
	return v, true
}

// zeroGlobal: vr is an unexported package-level variable of a loaded package, declared without an
// initializer, of a plain value type, that no file of the package assigns or takes the address of.
func (e *Engine) zeroGlobal(vr *types.Var) bool {
	if vr.Exported() || vr.Pkg() == nil {
		return false
	}
	switch vr.Type().Underlying().(type) {
	case *types.Basic, *types.Struct:
	default:
		return false
	}
	pi := e.pkgs[vr.Pkg().Path()]
	if pi == nil {
		return false
	}
	e.zgMu.Lock()
	defer e.zgMu.Unlock()
	if e.zgCache == nil {
		e.zgCache = map[*types.Var]bool{}
	}
	if r, ok := e.zgCache[vr]; ok {
		return r
	}
	info := pi.pkg.TypesInfo
	declaredPlain, touched := false, false
	isVr := func(x ast.Expr) bool {
		for {
			switch y := x.(type) {
			case *ast.ParenExpr:
				x = y.X
				continue
			case *ast.SelectorExpr: // zero.Real = ...
				x = y.X
				continue
			case *ast.IndexExpr:
				x = y.X
				continue
			}
			break
		}
		id, ok := x.(*ast.Ident)
		return ok && info.ObjectOf(id) == vr
	}
	for _, f := range pi.pkg.Syntax {
		ast.Inspect(f, func(n ast.Node) bool {
			switch x := n.(type) {
			case *ast.ValueSpec:
				for i, nm := range x.Names {
					if info.Defs[nm] == vr {
						if len(x.Values) == 0 {
							declaredPlain = true
						}
						_ = i
					}
				}
			case *ast.AssignStmt:
				for _, l := range x.Lhs {
					if isVr(l) {
						touched = true
					}
				}
			case *ast.IncDecStmt:
				if isVr(x.X) {
					touched = true
				}
			case *ast.RangeStmt:
				if (x.Key != nil && isVr(x.Key)) || (x.Value != nil && isVr(x.Value)) {
					touched = true
				}
			case *ast.UnaryExpr:
				if x.Op == token.AND && isVr(x.X) {
					touched = true
				}
			case *ast.CallExpr:
				// method call with pointer receiver on the variable: zero.Set(...)
				if sel, ok := x.Fun.(*ast.SelectorExpr); ok && isVr(sel.X) {
					if s, ok := info.Selections[sel]; ok && s.Kind() == types.MethodVal {
						if sig, ok := s.Obj().Type().(*types.Signature); ok && sig.Recv() != nil {
							if _, ptr := sig.Recv().Type().(*types.Pointer); ptr {
								touched = true
							}
						}
					}
				}
			}
			return true
		})
	}
	r := declaredPlain && !touched
	e.zgCache[vr] = r
	return r
}

func (e *Engine) importedPkg(fx *FuncCtx, env *specEnv, name string) *types.Package {
	base := fx.pkg.Types
	if env != nil && env.pkg != nil {
		base = env.pkg
	}
	for _, imp := range base.Imports() {
		if imp.Name() == name {
			return imp
		}
	}
	// allow well-known packages even if not imported by the package
	for path, pi := range e.pkgs {
		if pi.pkg.Types.Name() == name {
			_ = path
			return pi.pkg.Types
		}
	}
	if name == "math" {
		for _, pi := range e.pkgs {
			for _, imp := range pi.pkg.Types.Imports() {
				if imp.Path() == "math" {
					return imp
				}
			}
		}
	}
	return nil
}

func (e *Engine) lookupSpec(fx *FuncCtx, env *specEnv, name string) *SpecFunc {
	paths := []string{}
	if env != nil && env.pkgPath != "" {
		paths = append(paths, env.pkgPath)
	}
	paths = append(paths, fx.pkg.PkgPath)
	for _, p := range paths {
		if sp := e.cs.Specs[p+"."+name]; sp != nil {
			return sp
		}
	}
	if i := strings.IndexByte(name, '.'); i > 0 {
		// pkgname.spec
		pn, sn := name[:i], name[i+1:]
		for path, pi := range e.pkgs {
			if pi.pkg.Types.Name() == pn {
				if sp := e.cs.Specs[path+"."+sn]; sp != nil {
					return sp
				}
			}
		}
	}
	return nil
}

// addrTaken: is the address of this local taken anywhere in its function?
func (e *Engine) addrTaken(fx *FuncCtx, obj types.Object) bool {
	e.mu.Lock()
	defer e.mu.Unlock()
	if !e.addrDone[fx.decl] {
		e.addrDone[fx.decl] = true
		info := fx.info
		ast.Inspect(fx.decl, func(n ast.Node) bool {
			switch x := n.(type) {
			case *ast.UnaryExpr:
				if x.Op == token.AND {
					if id := rootIdentNoDeref(x.X); id != nil {
						if o := info.ObjectOf(id); o != nil {
							if _, isComposite := unparen(x.X).(*ast.CompositeLit); !isComposite {
								e.addrCache[o] = true
							}
						}
					}
				}
			case *ast.CallExpr:
				// method call with pointer receiver on addressable value
				if sel, ok := unparen(x.Fun).(*ast.SelectorExpr); ok {
					if s := info.Selections[sel]; s != nil && s.Kind() == types.MethodVal {
						if sig, ok := s.Obj().Type().(*types.Signature); ok && sig.Recv() != nil {
							if _, wantPtr := sig.Recv().Type().Underlying().(*types.Pointer); wantPtr {
								if t := info.Types[sel.X].Type; t != nil {
									if _, isPtr := t.Underlying().(*types.Pointer); !isPtr {
										if id := rootIdentNoDeref(sel.X); id != nil {
											if o := info.ObjectOf(id); o != nil {
												e.addrCache[o] = true
											}
										}
									}
								}
							}
						}
					}
				}
			case *ast.FuncLit:
				// variables captured and assigned by closures live in the heap
				ast.Inspect(x.Body, func(m ast.Node) bool {
					if as, ok := m.(*ast.AssignStmt); ok && as.Tok != token.DEFINE {
						for _, l := range as.Lhs {
							if id, ok := l.(*ast.Ident); ok {
								if o := info.ObjectOf(id); o != nil && o.Pos() < x.Pos() {
									e.addrCache[o] = true
								}
							}
						}
					}
					return true
				})
			}
			return true
		})
	}
	return e.addrCache[obj]
}

func rootIdentNoDeref(e ast.Expr) *ast.Ident {
	for {
		switch x := e.(type) {
		case *ast.Ident:
			return x
		case *ast.ParenExpr:
			e = x.X
		case *ast.SelectorExpr:
			e = x.X
		case *ast.IndexExpr:
			// &a[i] for arrays keeps a alive; for slices it does not address the variable
			return nil
		default:
			return nil
		}
	}
}

// ---------------------------------------------------------------------------

type FuncResult struct {
	Func        string
	Pkg         string
	Config      string
	Obls        []*Obl
	Unsupported string
	Notes       []string
	Demoted     []string
	Kept        map[int][]string
	HoudiniQ    int
	Secs        float64
	Covers      int
	CoverFail   []string
	Trusted     bool
	Missing     bool
}

func (e *Engine) shortPkg(path string) string {
	return strings.TrimPrefix(path, "gonum.org/v1/gonum/")
}

// VerifyFunc generates and discharges the obligations of one function.
func (e *Engine) VerifyFunc(key string, oblTimeoutMs int) *FuncResult {
	con := e.cs.Funcs[key]
	fname := strings.TrimPrefix(key, con.Pkg+".")
	t0 := time.Now()
	res := &FuncResult{Func: fname, Pkg: con.Pkg, Config: e.tags}
	pi := e.pkgs[con.Pkg]
	if pi == nil {
		res.Missing = true
		res.Unsupported = "package not loaded: " + con.Pkg
		return res
	}
	fd := pi.funcs[fname]
	if fd == nil {
		res.Missing = true
		res.Unsupported = "contract-target-missing: " + fname
		return res
	}
	if con.Trusted || fd.Body == nil {
		res.Trusted = true
		return res
	}
	fx := &FuncCtx{eng: e, pkg: pi.pkg, info: pi.pkg.TypesInfo, decl: fd, con: con, cur: pi,
		qname: key, short: e.shortPkg(con.Pkg) + "." + fname,
		declSet: map[string]bool{}, freshN: map[string]int{}, oblNames: map[string]int{}, cfg: e.tags,
		ieee: con.Floats == "ieee", ovf: con.Overflow == "checked"}
	func() {
		defer func() {
			if r := recover(); r != nil {
				if u, ok := r.(unsupported); ok {
					res.Unsupported = u.msg
					return
				}
				panic(r)
			}
		}()
		fx.run()
	}()
	res.Notes = fx.notes
	res.Demoted = fx.demoted
	res.Kept = fx.kept
	res.HoudiniQ = fx.houdiniQueries
	res.Covers = fx.covers
	res.CoverFail = fx.coverFail
	if res.Unsupported == "" {
		res.Obls = fx.obls
		if t := con.Options["timeout"]; t != "" {
			if n, err := strconv.Atoi(t); err == nil && n > oblTimeoutMs {
				oblTimeoutMs = n
			}
		}
		dischargeAll(fx.obls, oblTimeoutMs)
	}
	if res.Unsupported == "" && hasRealClauses(con) {
		// second pass: the [real] clauses, with floats as mathematical reals
		fx2 := &FuncCtx{eng: e, pkg: pi.pkg, info: pi.pkg.TypesInfo, decl: fd, con: con, cur: pi,
			qname: key, short: e.shortPkg(con.Pkg) + "." + fname,
			declSet: map[string]bool{}, freshN: map[string]int{}, oblNames: map[string]int{}, cfg: e.tags,
			real: true, keepOnly: map[string]bool{}}
		for _, ks := range fx.kept {
			for _, k := range ks {
				fx2.keepOnly[k] = true
			}
		}
		func() {
			defer func() {
				if r := recover(); r != nil {
					if u, ok := r.(unsupported); ok {
						res.Unsupported = "real pass: " + u.msg
						return
					}
					panic(r)
				}
			}()
			fx2.run()
		}()
		res.HoudiniQ += fx2.houdiniQueries
		for _, d := range fx2.demoted {
			res.Demoted = append(res.Demoted, d+" [real pass]")
		}
		if res.Unsupported == "" {
			dischargeAll(fx2.obls, oblTimeoutMs)
			res.Obls = append(res.Obls, fx2.obls...)
		}
	}
	res.Secs = time.Since(t0).Seconds()
	return res
}

func hasRealClauses(con *Contract) bool {
	for _, e := range con.Ensures {
		if e.Tag == "real" || (e.Tag == "realx" && thoroughTier) {
			return true
		}
	}
	return false
}

// thoroughTier enables the clauses tagged [realx] (exact-arithmetic clauses whose proof is too
// slow for the quick tier; they are decided in the thorough tier only).
var thoroughTier bool

func isRealTag(t string) bool { return t == "real" || t == "realx" }

func dischargeAll(obls []*Obl, timeoutMs int) {
	var wg sync.WaitGroup
	for _, o := range obls {
		if o.trivial {
			continue
		}
		o := o
		wg.Add(1)
		go func() {
			defer wg.Done()
			r := solve(o.query, timeoutMs, true)
			if r.Status == "unknown" {
				// proof search: case split on a small disjunctive hypothesis
				if r2 := solveByCases(o.query, timeoutMs); r2 != nil {
					r2.Secs += r.Secs
					r = r2
				}
			}
			if r.Status == "unknown" {
				// an undecided query is retried once with a longer time limit (a timing-dependent
				// "unknown" on a loaded machine must not become an alarm); the query text differs
				// only by a comment so that the result cache is bypassed
				r3 := solveRetry(o.query, timeoutMs*4)
				r3.Secs += r.Secs
				if r3.Status != "unknown" {
					r = r3
				} else {
					for k, v := range r3.Detail {
						r.Detail[k] = v
					}
					r.Secs = r3.Secs
				}
			}
			o.Backend = r.Backend
			o.Secs = r.Secs
			o.Answers = r.Detail
			if r.Status == "unsat" {
				o.Status = "discharged"
			} else {
				o.Status = "failed"
				if r.Status == "sat" {
					o.Model = r.Model
				}
			}
		}()
	}
	wg.Wait()
}

// run builds the entry state, executes the body and emits exit obligations.
func (fx *FuncCtx) run() {
	fd := fx.decl
	st := &State{vars: map[types.Object]Val{}, heap: map[string]Term{}, written: tFalse}
	st.allocTop = fx.declConst("alloc0", SInt)
	st.assume(Gt(st.allocTop, IntLit(0)))
	fx.params = map[string]Val{}
	fx.paramObj = map[string]types.Object{}
	bindParam := func(n *ast.Ident) {
		obj := fx.info.Defs[n]
		if obj == nil || n.Name == "_" {
			return
		}
		v, facts := fx.freshVal(n.Name, obj.Type())
		for _, f := range facts {
			st.assume(f)
		}
		fx.params[n.Name] = v
		fx.paramObj[n.Name] = obj
		fx.refFacts(st, v)
		fx.bind(st, obj, v)
	}
	if fd.Recv != nil {
		for _, f := range fd.Recv.List {
			for _, n := range f.Names {
				bindParam(n)
			}
		}
	}
	for _, f := range fd.Type.Params.List {
		for _, n := range f.Names {
			bindParam(n)
		}
	}
	sig := fx.info.Defs[fd.Name].Type().(*types.Signature)
	if fd.Type.Results != nil {
		for _, f := range fd.Type.Results.List {
			for _, n := range f.Names {
				if obj, ok := fx.info.Defs[n].(*types.Var); ok {
					fx.results = append(fx.results, obj)
					fx.bind(st, obj, fx.zeroVal(obj.Type()))
				}
			}
		}
	}
	if fx.results == nil {
		for j := 0; j < sig.Results().Len(); j++ {
			fx.results = append(fx.results, sig.Results().At(j))
		}
	}
	fx.entry = st.clone()
	con := fx.con
	env := &specEnv{fx: fx, cur: st, old: fx.entry, binds: map[string]sval{}, entryParams: true}
	fx.lets = map[string]Val{}
	for _, l := range con.Lets {
		v := fx.specEval(env, l.Expr)
		if t, ok := v.v.(Term); ok {
			v.v = fx.define("let_"+l.Name, t)
		}
		fx.lets[l.Name] = v.v
	}
	for _, r := range con.Requires {
		if r.Tag != "" && !fx.tagActive(r.Tag) {
			continue
		}
		st.assume(fx.specBool(env, r.Expr))
	}
	fx.assumeTypeInvariants(st, env)
	if con.Valid != nil {
		v := fx.specBool(env, con.Valid.Expr)
		name := fx.freshName("valid")
		fx.decls = append(fx.decls, fmt.Sprintf("(define-fun %s () Bool %s)", name, v.S))
		fx.noteBoolDef(name, v.S)
		vt := Term{name, SBool}
		fx.validT = &vt
	}
	fx.entry = st.clone()
	fx.setupPoison(st, env)
	fx.coverChecks(st)

	fl := fx.execBlock(st, fd.Body.List)
	if fl.normal != nil {
		fx.execReturn(fl.normal, &ast.ReturnStmt{Return: fd.Body.Rbrace})
	}
	fx.runDeferred()
	// exits
	for _, ex := range fx.exits {
		switch ex.kind {
		case "panic":
			what := "panic(" + fx.src(ex.pexpr) + ")"
			if len(con.PanicEnsures) > 0 {
				penv := &specEnv{fx: fx, cur: ex.st, old: fx.entry, binds: map[string]sval{}, entryParams: true}
				for _, pe := range con.PanicEnsures {
					fx.obligeSplit(ex.st, "panic.post", fx.specBool(penv, pe.Expr), ex.node, what+" only if "+pe.Src)
				}
			}
			switch {
			case con.PanicsIff && fx.validT != nil:
				fx.oblige(ex.st, "panic.none", Not(*fx.validT), ex.node, what)
				if con.BeforeWr {
					fx.oblige(ex.st, "panic.order", Not(ex.st.written), ex.node, what+" before any write")
				}
			case con.Options["may-panic"] == "true":
			default:
				fx.oblige(ex.st, "panic.never", tFalse, ex.node, what)
			}
		case "return":
			// vacuity guard: a return whose path condition is contradictory would
			// discharge every postcondition
			{
				fx.covers++
				q := fx.buildQuery(ex.st.hypTerms(), tFalse)
				if r := solve(q, 4000, false); r.Status == "unsat" {
					if con.Options["dead-return-ok"] != "true" {
						fx.coverFail = append(fx.coverFail, fmt.Sprintf("%s: return at %s is unreachable under the contract (contradictory hypotheses?)", fx.short, shortPos(fx.pos(ex.node))))
					}
				}
			}
			if con.PanicsIff && fx.validT != nil {
				fx.oblige(ex.st, "panic.must", *fx.validT, ex.node, "return requires valid arguments")
			}
			var rs []sval
			var names []string
			for i, r := range ex.results {
				var t types.Type
				if i < len(fx.results) {
					t = fx.results[i].Type()
					names = append(names, fx.results[i].Name())
				}
				rs = append(rs, sval{r, t})
			}
			penv := &specEnv{fx: fx, cur: ex.st, old: fx.entry, binds: map[string]sval{}, results: rs, resNames: names, entryParams: true}
			for _, en := range con.Ensures {
				if en.Tag != "" && !fx.tagActive(en.Tag) {
					continue
				}
				kind := "post"
				if isRealTag(en.Tag) {
					kind = "post.real"
				}
				fx.obligeSplit(ex.st, kind, fx.specBool(penv, en.Expr), ex.node, "ensures "+en.Src)
			}
			fx.checkTypeInvariants(ex.st, penv, ex.node)
			fx.checkHeapFrame(ex.st, ex.node)
		}
	}
}

func (fx *FuncCtx) coverChecks(st *State) {
	// vacuity guards: entry assumptions, valid and !valid must be satisfiable
	check := func(name string, extra Term) {
		fx.covers++
		hyps := append(st.hypTerms(), extra)
		q := fx.buildQuery(hyps, tFalse)
		r := solve(q, 3000, false)
		if r.Status == "unsat" {
			fx.coverFail = append(fx.coverFail, fx.short+": "+name+" is unsatisfiable")
		}
	}
	check("entry assumptions (requires)", tTrue)
	if fx.validT != nil {
		check("valid", *fx.validT)
		check("!valid", Not(*fx.validT))
	}
}

// refFacts: references inside a received value denote allocated objects.
func (fx *FuncCtx) refFacts(st *State, v Val) {
	switch x := v.(type) {
	case PtrV:
		fx.refFact(st, x.Ref)
	case MapV:
		fx.refFact(st, x.Ref)
	case StructV:
		for _, f := range x.Fields {
			fx.refFacts(st, f)
		}
	}
}

// solveByCases retries an undecided query by splitting on one disjunctive
// hypothesis (an asserted (or ...) or the negation of a defined conjunction):
// the query is unsat iff it is unsat under every disjunct.
func solveByCases(query string, timeoutMs int) *SolveResult {
	lines := strings.Split(query, "\n")
	defs := map[string]*sx{}
	for _, l := range lines {
		if strings.HasPrefix(l, "(define-fun ") && strings.Contains(l, " () Bool ") {
			n := parseSx(l)
			if len(n.kids) == 5 {
				defs[n.kids[1].atom] = n.kids[4]
			}
		}
	}
	type split struct {
		line  int
		cases []string
	}
	var splits []split
	for i, l := range lines {
		if !strings.HasPrefix(l, "(assert ") || len(l) > 3000 {
			continue
		}
		n := parseSx(l)
		if len(n.kids) != 2 {
			continue
		}
		b := n.kids[1]
		var cases []string
		flat := func(n *sx, op string) []*sx {
			var out []*sx
			var rec func(m *sx)
			rec = func(m *sx) {
				if m.isApp(op) {
					for _, k := range m.kids[1:] {
						rec(k)
					}
					return
				}
				out = append(out, m)
			}
			rec(n)
			return out
		}
		switch {
		case b.isApp("or"):
			for _, k := range flat(b, "or") {
				cases = append(cases, k.String())
			}
		case b.isApp("not") && len(b.kids) == 2 && b.kids[1].kids == nil:
			if d, ok := defs[b.kids[1].atom]; ok && d.isApp("and") {
				for _, k := range flat(d, "and") {
					cases = append(cases, "(not "+k.String()+")")
				}
			}
		case b.isApp("not") && len(b.kids) == 2 && b.kids[1].isApp("and"):
			for _, k := range flat(b.kids[1], "and") {
				cases = append(cases, "(not "+k.String()+")")
			}
		}
		if len(cases) < 2 || len(cases) > 5 {
			cases = nil
		}
		if cases != nil {
			splits = append(splits, split{i, cases})
		}
	}
	if len(splits) > 8 {
		splits = splits[len(splits)-8:] // the most recent branch conditions are the most relevant
	}
	for si := len(splits) - 1; si >= 0; si-- {
		sp := splits[si]
		all := true
		var secs float64
		backend := ""
		for _, c := range sp.cases {
			q := strings.Join(lines[:sp.line], "\n") + "\n(assert " + c + ")\n" + strings.Join(lines[sp.line+1:], "\n")
			r := solve(q, timeoutMs/2, false)
			secs += r.Secs
			if os.Getenv("GOVC_DEBUG") != "" {
				fmt.Printf("  [cases] line %d case %.80s -> %s %v\n", sp.line, c, r.Status, r.Detail)
			}
			if r.Status != "unsat" {
				all = false
				break
			}
			backend = r.Backend
		}
		if all {
			return &SolveResult{Status: "unsat", Backend: backend + "+cases", Secs: secs, Detail: map[string]string{backend + "+cases": fmt.Sprintf("unsat in each of %d cases of a disjunctive hypothesis", len(sp.cases))}}
		}
	}
	return nil
}

// initializedNonNil: package-level variable initialised by errors.New / fmt.Errorf /
// a composite literal (never reassigned in gonum: these are sentinel errors).
func (e *Engine) initializedNonNil(vr *types.Var) bool {
	pi := e.pkgs[vr.Pkg().Path()]
	if pi == nil {
		switch vr.Pkg().Path() + "." + vr.Name() {
		case "io.EOF", "io.ErrUnexpectedEOF", "io.ErrShortBuffer", "io.ErrShortWrite":
			return true
		}
		return false
	}
	for _, f := range pi.pkg.Syntax {
		for _, d := range f.Decls {
			gd, ok := d.(*ast.GenDecl)
			if !ok || gd.Tok != token.VAR {
				continue
			}
			for _, sp := range gd.Specs {
				vs := sp.(*ast.ValueSpec)
				for i, n := range vs.Names {
					if pi.pkg.TypesInfo.Defs[n] != vr || i >= len(vs.Values) {
						continue
					}
					switch x := vs.Values[i].(type) {
					case *ast.CallExpr:
						if sel, ok := x.Fun.(*ast.SelectorExpr); ok {
							if id, ok := sel.X.(*ast.Ident); ok && (id.Name == "errors" && sel.Sel.Name == "New" || id.Name == "fmt" && sel.Sel.Name == "Errorf") {
								return true
							}
						}
						// conversion of a string constant to an error type: Error("...")
						if tv, ok := pi.pkg.TypesInfo.Types[x.Fun]; ok && tv.IsType() {
							return true
						}
					case *ast.CompositeLit:
						return true
					}
				}
			}
		}
	}
	return false
}

// arraySliced: is this local array variable sliced (b[:], b[i:j]) in its function?
func (e *Engine) arraySliced(fx *FuncCtx, obj types.Object) bool {
	if _, ok := obj.Type().Underlying().(*types.Array); !ok {
		return false
	}
	found := false
	ast.Inspect(fx.decl, func(n ast.Node) bool {
		if se, ok := n.(*ast.SliceExpr); ok {
			if id, ok := unparen(se.X).(*ast.Ident); ok && fx.info.ObjectOf(id) == obj {
				found = true
			}
		}
		return !found
	})
	return found
}
