package main

// Statements: forward symbolic execution with state merging.

import (
	"fmt"
	"go/ast"
	"go/token"
	"go/types"
)

type jump struct {
	label string
	st    *State
}

// Flow is the outcome of executing a statement.
type Flow struct {
	normal *State
	breaks []jump
	conts  []jump
}

func (f *Flow) absorb(g Flow) {
	f.breaks = append(f.breaks, g.breaks...)
	f.conts = append(f.conts, g.conts...)
}

// mergeStates merges states that all extend base (same hyps prefix of length n).
func (fx *FuncCtx) mergeStates(base *State, states []*State) *State {
	var live []*State
	for _, s := range states {
		if s != nil {
			live = append(live, s)
		}
	}
	if len(live) == 0 {
		return nil
	}
	if len(live) == 1 {
		return live[0]
	}
	n := len(base.hyps)
	out := base.clone()
	// guards
	guards := make([]Term, len(live))
	for i, s := range live {
		var bs []Term
		for _, h := range s.hyps[n:] {
			if h.Branch {
				bs = append(bs, h.T)
			}
		}
		g := And(bs...)
		if len(g.S) > 40 {
			name := fx.freshName("g")
			fx.decls = append(fx.decls, fmt.Sprintf("(define-fun %s () Bool %s)", name, g.S))
			fx.noteBoolDef(name, g.S)
			g = Term{name, SBool}
		}
		guards[i] = g
	}
	out.hyps = append(out.hyps, Hyp{T: Or(guards...)})
	for i, s := range live {
		for _, h := range s.hyps[n:] {
			if !h.Branch {
				out.hyps = append(out.hyps, Hyp{T: Implies(guards[i], h.T)})
			}
		}
	}
	// variables: only those of the base scope survive
	for obj := range base.vars {
		vals := make([]Val, len(live))
		same := true
		for i, s := range live {
			vals[i] = s.vars[obj]
			if i > 0 && valString(vals[i]) != valString(vals[0]) {
				same = false
			}
		}
		if same {
			out.vars[obj] = vals[0]
			continue
		}
		out.vars[obj] = fx.mergeVals(obj.Name(), guards, vals)
	}
	// heap
	names := map[string]bool{}
	for _, s := range live {
		for k := range s.heap {
			names[k] = true
		}
	}
	for k := range names {
		var ts []Term
		same := true
		for i, s := range live {
			t, ok := s.heap[k]
			if !ok {
				// untouched in this branch: the entry constant of that name
				for _, o := range live {
					if ot, ok := o.heap[k]; ok {
						t = Term{k, ot.Sort}
						break
					}
				}
				fx.declare(fmt.Sprintf("(declare-const %s %s)", k, t.Sort))
				if bt, ok := base.heap[k]; ok {
					t = bt
				}
			}
			ts = append(ts, t)
			if i > 0 && ts[i].S != ts[0].S {
				same = false
			}
		}
		if same {
			out.heap[k] = ts[0]
			continue
		}
		m := ts[len(ts)-1]
		for i := len(ts) - 2; i >= 0; i-- {
			m = Ite(guards[i], ts[i], m)
		}
		out.heap[k] = fx.define(k, m)
	}
	// written flag
	w := live[len(live)-1].written
	for i := len(live) - 2; i >= 0; i-- {
		w = Ite(guards[i], live[i].written, w)
	}
	out.written = fx.define("written", w)
	at := live[len(live)-1].allocTop
	for i := len(live) - 2; i >= 0; i-- {
		at = Ite(guards[i], live[i].allocTop, at)
	}
	out.allocTop = fx.define("alloctop", at)
	for _, s := range live {
		for _, a := range s.allocs {
			if !containsTerm(out.allocs, a) {
				out.allocs = append(out.allocs, a)
			}
		}
		for _, a := range s.refs {
			if !containsTerm(out.refs, a) {
				out.refs = append(out.refs, a)
			}
		}
	}
	return out
}

func (fx *FuncCtx) mergeVals(name string, guards []Term, vals []Val) Val {
	mt := func(ts []Term) Term {
		m := ts[len(ts)-1]
		for i := len(ts) - 2; i >= 0; i-- {
			m = Ite(guards[i], ts[i], m)
		}
		return fx.define(name, m)
	}
	switch v0 := vals[0].(type) {
	case Term:
		ts := make([]Term, len(vals))
		for i, v := range vals {
			t, ok := v.(Term)
			if !ok {
				fx.unsupportedf("merge of %s: mixed values", name)
			}
			ts[i] = t
		}
		return mt(ts)
	case SliceV:
		f := func(get func(SliceV) Term) Term {
			ts := make([]Term, len(vals))
			for i, v := range vals {
				ts[i] = get(v.(SliceV))
			}
			return mt(ts)
		}
		return SliceV{Rid: f(func(s SliceV) Term { return s.Rid }), Off: f(func(s SliceV) Term { return s.Off }),
			Len: f(func(s SliceV) Term { return s.Len }), Cap: f(func(s SliceV) Term { return s.Cap }), Elem: v0.Elem, IsString: v0.IsString}
	case StructV:
		out := StructV{T: v0.T}
		for i := range v0.Fields {
			fv := make([]Val, len(vals))
			for j, v := range vals {
				fv[j] = v.(StructV).Fields[i]
			}
			out.Fields = append(out.Fields, fx.mergeVals(fmt.Sprintf("%s.%d", name, i), guards, fv))
		}
		return out
	case PtrV:
		ts := make([]Term, len(vals))
		for i, v := range vals {
			ts[i] = v.(PtrV).Ref
		}
		return PtrV{Ref: mt(ts), Elem: v0.Elem}
	case MapV:
		ts := make([]Term, len(vals))
		for i, v := range vals {
			ts[i] = v.(MapV).Ref
		}
		return MapV{Ref: mt(ts), T: v0.T}
	case IfaceV:
		ts := make([]Term, len(vals))
		for i, v := range vals {
			ts[i] = v.(IfaceV).T
		}
		return IfaceV{T: mt(ts), GT: v0.GT}
	case ArrayV:
		ts := make([]Term, len(vals))
		for i, v := range vals {
			ts[i] = v.(ArrayV).Arr
		}
		return ArrayV{T: v0.T, Arr: mt(ts)}
	case StrV:
		ids := make([]Term, len(vals))
		lens := make([]Term, len(vals))
		for i, v := range vals {
			ids[i] = v.(StrV).ID
			lens[i] = v.(StrV).Len
		}
		return StrV{ID: mt(ids), Len: mt(lens)}
	case heapVar:
		return v0
	case FuncV:
		return FuncV{Name: "merged_" + name}
	}
	fx.unsupportedf("merge of %s (%T)", name, vals[0])
	return nil
}

func (fx *FuncCtx) execBlock(st *State, stmts []ast.Stmt) Flow {
	var fl Flow
	cur := st
	for _, s := range stmts {
		if cur == nil {
			break
		}
		r := fx.execStmt(cur, s)
		fl.absorb(r)
		cur = r.normal
	}
	fl.normal = cur
	return fl
}

func (fx *FuncCtx) bind(st *State, obj types.Object, v Val) {
	if obj == nil {
		return
	}
	// a local array that is sliced somewhere lives in a memory region, so that
	// the slices alias it
	if av, ok := v.(ArrayV); ok && fx.eng.arraySliced(fx, obj) {
		rid := fx.allocRegion(st)
		n := IntLit(av.T.Len())
		sv := SliceV{Rid: rid, Off: IntLit(0), Len: n, Cap: n, Elem: av.T.Elem()}
		name := memName(av.T.Elem())
		m := fx.heapGet(st, name, fx.memSort(av.T.Elem()))
		st.heap[name] = fx.define(name, Store(m, rid, av.Arr))
		st.vars[obj] = sv
		return
	}
	if fx.eng.addrTaken(fx, obj) {
		// heap-allocated local
		var ref Term
		if st.allocTop.S != "" {
			// a new object above the allocation frontier: distinct from every object that existed at
			// entry and from every other local / allocation of this activation
			ref = fx.allocRef(st, "loc_"+obj.Name())
		} else {
			ref = fx.freshConst("loc_"+obj.Name(), SInt)
			st.assume(Lt(ref, IntLit(0)))
			for _, prev := range st.refs {
				st.assume(Not(Eq(ref, prev)))
			}
			st.refs = append(st.refs[:len(st.refs):len(st.refs)], ref)
		}
		hv := heapVar{prefix: heapPrefix(obj.Type()), ref: ref}
		fx.storeHeap(st, hv.prefix, ref, obj.Type(), v)
		st.vars[obj] = hv
		return
	}
	st.vars[obj] = v
}

func (fx *FuncCtx) setVar(st *State, obj types.Object, v Val) {
	if cur, ok := st.vars[obj]; ok {
		if hv, ok := cur.(heapVar); ok {
			fx.storeHeap(st, hv.prefix, hv.ref, obj.Type(), v)
			return
		}
	}
	st.vars[obj] = v
}

// coerce adapts a value to the static type of its destination (nil, interface boxing).
func (fx *FuncCtx) coerce(st *State, v Val, from, to types.Type) Val {
	if _, ok := v.(NilV); ok {
		return fx.zeroVal(to)
	}
	if to == nil {
		return v
	}
	if _, toIface := to.Underlying().(*types.Interface); toIface {
		if _, ok := v.(IfaceV); ok {
			return v
		}
		return fx.box(st, v, from)
	}
	return v
}

func (fx *FuncCtx) execStmt(st *State, s ast.Stmt) Flow {
	switch x := s.(type) {
	case *ast.EmptyStmt:
		return Flow{normal: st}
	case *ast.BlockStmt:
		return fx.execBlock(st, x.List)
	case *ast.ExprStmt:
		if call, ok := x.X.(*ast.CallExpr); ok {
			if id, ok := call.Fun.(*ast.Ident); ok && id.Name == "panic" {
				if _, isBuiltin := fx.info.ObjectOf(id).(*types.Builtin); isBuiltin {
					var pv Val
					func() {
						defer func() {
							if r := recover(); r != nil {
								if _, ok := r.(unsupported); !ok {
									panic(r)
								}
								pv = nil
							}
						}()
						pv = fx.eval(st, call.Args[0])
					}()
					fx.exits = append(fx.exits, &Exit{kind: "panic", st: st, node: x, pval: pv, pexpr: call.Args[0]})
					return Flow{}
				}
			}
		}
		fx.eval(st, x.X)
		if fx.isDead(st) {
			return Flow{}
		}
		return Flow{normal: st}
	case *ast.IncDecStmt:
		t := fx.typeOf(x.X)
		k, ok := intInfo(t)
		if !ok {
			if fs, ok := isFloat(t); ok {
				cur := fx.evalTerm(st, x.X)
				op := token.ADD
				if x.Tok == token.DEC {
					op = token.SUB
				}
				fx.assignTo(st, x.X, fx.floatOp(op, cur, fx.floatConst(1, fs), fs, x), t)
				return Flow{normal: st}
			}
			fx.unsupportedf("inc/dec of %s", t)
		}
		cur := fx.evalTerm(st, x.X)
		var nv Term
		if x.Tok == token.INC {
			nv = fx.wrapInt(st, Add(cur, IntLit(1)), k, x)
		} else {
			nv = fx.wrapInt(st, Sub(cur, IntLit(1)), k, x)
		}
		fx.assignTo(st, x.X, nv, t)
		return Flow{normal: st}
	case *ast.AssignStmt:
		fx.execAssign(st, x)
		if fx.isDead(st) {
			return Flow{}
		}
		return Flow{normal: st}
	case *ast.DeclStmt:
		gd, ok := x.Decl.(*ast.GenDecl)
		if !ok {
			fx.unsupportedf("declaration %s", fx.src(x))
		}
		for _, sp := range gd.Specs {
			vs, ok := sp.(*ast.ValueSpec)
			if !ok {
				continue // const / type declarations need no execution
			}
			if gd.Tok == token.CONST {
				continue
			}
			if len(vs.Values) == 0 {
				for _, n := range vs.Names {
					obj := fx.info.Defs[n]
					if obj != nil {
						fx.bind(st, obj, fx.zeroVal(obj.Type()))
					}
				}
				continue
			}
			if len(vs.Values) == len(vs.Names) {
				var vals []Val
				for i, e := range vs.Values {
					v := fx.eval(st, e)
					if obj := fx.info.Defs[vs.Names[i]]; obj != nil {
						v = fx.coerce(st, v, fx.info.Types[e].Type, obj.Type())
					}
					vals = append(vals, v)
				}
				for i, n := range vs.Names {
					if n.Name == "_" {
						continue
					}
					fx.bind(st, fx.info.Defs[n], vals[i])
				}
				continue
			}
			tv := fx.evalMulti(st, vs.Values[0], len(vs.Names))
			for i, n := range vs.Names {
				if n.Name == "_" {
					continue
				}
				fx.bind(st, fx.info.Defs[n], tv[i])
			}
		}
		if fx.isDead(st) {
			return Flow{}
		}
		return Flow{normal: st}
	case *ast.IfStmt:
		return fx.execIf(st, x)
	case *ast.SwitchStmt:
		return fx.execSwitch(st, x)
	case *ast.TypeSwitchStmt:
		return fx.execTypeSwitch(st, x)
	case *ast.ForStmt:
		return fx.execFor(st, x, "")
	case *ast.RangeStmt:
		return fx.execRange(st, x, "")
	case *ast.LabeledStmt:
		switch inner := x.Stmt.(type) {
		case *ast.ForStmt:
			return fx.execFor(st, inner, x.Label.Name)
		case *ast.RangeStmt:
			return fx.execRange(st, inner, x.Label.Name)
		}
		fl := fx.execStmt(st, x.Stmt)
		// break L out of a labelled non-loop statement
		var rest []jump
		var outs []*State
		for _, b := range fl.breaks {
			if b.label == x.Label.Name {
				outs = append(outs, b.st)
			} else {
				rest = append(rest, b)
			}
		}
		if len(outs) > 0 {
			outs = append(outs, fl.normal)
			fl.normal = fx.mergeStates(st, outs)
		}
		fl.breaks = rest
		return fl
	case *ast.BranchStmt:
		lbl := ""
		if x.Label != nil {
			lbl = x.Label.Name
		}
		switch x.Tok {
		case token.BREAK:
			return Flow{breaks: []jump{{lbl, st}}}
		case token.CONTINUE:
			return Flow{conts: []jump{{lbl, st}}}
		}
		fx.unsupportedf("branch statement %s", x.Tok)
	case *ast.ReturnStmt:
		fx.execReturn(st, x)
		return Flow{}
	case *ast.SendStmt:
		fx.eval(st, x.Value)
		return Flow{normal: st}
	case *ast.GoStmt:
		return fx.execGo(st, x)
	case *ast.DeferStmt:
		return fx.execDefer(st, x)
	}
	fx.unsupportedf("statement %T", s)
	return Flow{}
}

// isDead: a state whose hypotheses contain a literal false.
func (fx *FuncCtx) isDead(st *State) bool {
	if n := len(st.hyps); n > 0 && st.hyps[n-1].T.S == "false" {
		return true
	}
	return false
}

func (fx *FuncCtx) execReturn(st *State, x *ast.ReturnStmt) {
	var res []Val
	if len(x.Results) == 0 {
		for _, r := range fx.results {
			res = append(res, fx.lookupVar(st, r, nil))
		}
	} else if len(x.Results) == 1 && len(fx.results) > 1 {
		res = fx.evalMulti(st, x.Results[0], len(fx.results))
	} else {
		for i, e := range x.Results {
			v := fx.eval(st, e)
			if i < len(fx.results) {
				v = fx.coerce(st, v, fx.info.Types[e].Type, fx.results[i].Type())
			}
			res = append(res, v)
		}
	}
	if fx.isDead(st) {
		return
	}
	if len(fx.defers) > 0 {
		fx.runDefers(st)
		if fx.isDead(st) {
			return
		}
		if len(x.Results) == 0 {
			// named results may have been updated by deferred closures
			res = nil
			for _, r := range fx.results {
				res = append(res, fx.lookupVar(st, r, nil))
			}
		}
	}
	fx.exits = append(fx.exits, &Exit{kind: "return", st: st, results: res, node: x})
}

func (fx *FuncCtx) evalMulti(st *State, e ast.Expr, n int) []Val {
	switch x := e.(type) {
	case *ast.ParenExpr:
		return fx.evalMulti(st, x.X, n)
	case *ast.IndexExpr:
		// v, ok := m[k]
		if mv, ok := fx.eval(st, x.X).(MapV); ok {
			v, ok := fx.mapLookup(st, mv, fx.eval(st, x.Index))
			return []Val{v, ok}
		}
	case *ast.TypeAssertExpr:
		v := fx.evalTypeAssert(st, x, true)
		return v.(TupleV)
	}
	v := fx.eval(st, e)
	tv, ok := v.(TupleV)
	if !ok || len(tv) != n {
		fx.unsupportedf("expected %d values from %s", n, fx.src(e))
	}
	return tv
}

func (fx *FuncCtx) execAssign(st *State, x *ast.AssignStmt) {
	if x.Tok != token.ASSIGN && x.Tok != token.DEFINE {
		// op-assign
		op := map[token.Token]token.Token{token.ADD_ASSIGN: token.ADD, token.SUB_ASSIGN: token.SUB, token.MUL_ASSIGN: token.MUL,
			token.QUO_ASSIGN: token.QUO, token.REM_ASSIGN: token.REM, token.AND_ASSIGN: token.AND, token.OR_ASSIGN: token.OR,
			token.XOR_ASSIGN: token.XOR, token.SHL_ASSIGN: token.SHL, token.SHR_ASSIGN: token.SHR, token.AND_NOT_ASSIGN: token.AND_NOT}[x.Tok]
		lt := fx.typeOf(x.Lhs[0])
		rt := fx.typeOf(x.Rhs[0])
		l := fx.eval(st, x.Lhs[0])
		r := fx.eval(st, x.Rhs[0])
		v := fx.binop(st, op, l, r, lt, rt, x)
		fx.assignTo(st, x.Lhs[0], v, lt)
		return
	}
	var vals []Val
	if len(x.Rhs) == len(x.Lhs) {
		for i, e := range x.Rhs {
			v := fx.eval(st, e)
			var to types.Type
			if id, ok := x.Lhs[i].(*ast.Ident); ok && id.Name == "_" {
				to = nil
			} else if x.Tok == token.DEFINE {
				if id, ok := x.Lhs[i].(*ast.Ident); ok {
					if o := fx.info.ObjectOf(id); o != nil {
						to = o.Type()
					}
				}
			} else {
				to = fx.typeOf(x.Lhs[i])
			}
			vals = append(vals, fx.coerce(st, v, fx.info.Types[e].Type, to))
		}
	} else {
		vals = fx.evalMulti(st, x.Rhs[0], len(x.Lhs))
	}
	for i, l := range x.Lhs {
		if id, ok := l.(*ast.Ident); ok {
			if id.Name == "_" {
				continue
			}
			if x.Tok == token.DEFINE {
				if obj := fx.info.Defs[id]; obj != nil {
					fx.bind(st, obj, vals[i])
					continue
				}
			}
		}
		fx.assignTo(st, l, vals[i], fx.typeOf(l))
	}
}

// assignTo stores v into the location denoted by lhs.
func (fx *FuncCtx) assignTo(st *State, lhs ast.Expr, v Val, t types.Type) {
	switch l := lhs.(type) {
	case *ast.ParenExpr:
		fx.assignTo(st, l.X, v, t)
	case *ast.Ident:
		if l.Name == "_" {
			return
		}
		obj := fx.info.ObjectOf(l)
		if _, isNil := v.(NilV); isNil {
			v = fx.zeroVal(obj.Type())
		}
		if vr, ok := obj.(*types.Var); ok && vr.Pkg() != nil && vr.Parent() == vr.Pkg().Scope() {
			fx.unsupportedf("assignment to package variable %s", l.Name)
		}
		fx.setVar(st, obj, v)
	case *ast.IndexExpr:
		base := fx.eval(st, l.X)
		switch b := base.(type) {
		case SliceV:
			idx := fx.evalTerm(st, l.Index)
			fx.oblige(st, "idx", And(Ge(idx, IntLit(0)), Lt(idx, b.Len)), l, "")
			fx.checkStore(st, b, idx, l)
			if _, isNil := v.(NilV); isNil {
				v = fx.zeroVal(b.Elem)
			}
			fx.memWrite(st, b, idx, v)
		case ArrayV:
			idx := fx.evalTerm(st, l.Index)
			fx.oblige(st, "idx", And(Ge(idx, IntLit(0)), Lt(idx, IntLit(b.T.Len()))), l, "")
			tv, ok := unwrapScalar(v)
			if !ok {
				fx.unsupportedf("array element store")
			}
			fx.assignTo(st, l.X, ArrayV{T: b.T, Arr: fx.define("arr", Store(b.Arr, idx, tv))}, b.T)
		case MapV:
			fx.mapStore(st, b, fx.eval(st, l.Index), v, l)
		case PtrV:
			at, ok := b.Elem.Underlying().(*types.Array)
			if !ok {
				fx.unsupportedf("index store through %s", valString(base))
			}
			fx.oblige(st, "nil", Not(Eq(b.Ref, IntLit(0))), l, "")
			arr := fx.loadHeap(st, heapPrefix(b.Elem), b.Ref, b.Elem).(ArrayV)
			idx := fx.evalTerm(st, l.Index)
			fx.oblige(st, "idx", And(Ge(idx, IntLit(0)), Lt(idx, IntLit(at.Len()))), l, "")
			tv, _ := unwrapScalar(v)
			fx.checkModifies(st, b, "", l)
			fx.storeHeap(st, heapPrefix(b.Elem), b.Ref, b.Elem, ArrayV{T: at, Arr: Store(arr.Arr, idx, tv)})
		default:
			fx.unsupportedf("index store into %s", valString(base))
		}
	case *ast.SelectorExpr:
		sel := fx.info.Selections[l]
		if sel == nil || sel.Kind() != types.FieldVal {
			fx.unsupportedf("assignment to %s", fx.src(l))
		}
		fx.assignField(st, l.X, fx.typeOf(l.X), sel.Index(), v, l)
	case *ast.StarExpr:
		p, ok := fx.eval(st, l.X).(PtrV)
		if !ok {
			fx.unsupportedf("store through non-pointer")
		}
		fx.oblige(st, "nil", Not(Eq(p.Ref, IntLit(0))), l, "")
		fx.checkModifies(st, p, "", l)
		fx.storeHeap(st, heapPrefix(p.Elem), p.Ref, p.Elem, v)
	default:
		fx.unsupportedf("assignment to %T", lhs)
	}
}

// assignField stores v into base.path where base has type bt.
func (fx *FuncCtx) assignField(st *State, baseExpr ast.Expr, bt types.Type, path []int, v Val, node ast.Node) {
	base := fx.eval(st, baseExpr)
	switch b := base.(type) {
	case PtrV:
		s := b.Elem.Underlying().(*types.Struct)
		fx.oblige(st, "nil", Not(Eq(b.Ref, IntLit(0))), node, "")
		prefix := heapPrefix(b.Elem)
		t := types.Type(nil)
		cur := s
		for j, i := range path {
			f := cur.Field(i)
			prefix += "." + f.Name()
			t = f.Type()
			if j < len(path)-1 {
				ns, ok := f.Type().Underlying().(*types.Struct)
				if !ok {
					fx.unsupportedf("embedded pointer path in assignment %s", fx.src(node))
				}
				cur = ns
			}
		}
		if _, isNil := v.(NilV); isNil {
			v = fx.zeroVal(t)
		}
		fx.checkModifies(st, b, prefix, node)
		fx.storeHeap(st, prefix, b.Ref, t, v)
	case StructV:
		nv := fx.updateStruct(b, path, v)
		fx.assignTo(st, baseExpr, nv, bt)
	default:
		fx.unsupportedf("field assignment on %s", valString(base))
	}
}

func (fx *FuncCtx) updateStruct(b StructV, path []int, v Val) StructV {
	out := StructV{T: b.T, Fields: append([]Val(nil), b.Fields...)}
	if len(path) == 1 {
		if _, isNil := v.(NilV); isNil {
			v = fx.zeroVal(b.T.Underlying().(*types.Struct).Field(path[0]).Type())
		}
		out.Fields[path[0]] = v
		return out
	}
	inner, ok := b.Fields[path[0]].(StructV)
	if !ok {
		fx.unsupportedf("nested field update through non-struct")
	}
	out.Fields[path[0]] = fx.updateStruct(inner, path[1:], v)
	return out
}

func (fx *FuncCtx) execIf(st *State, x *ast.IfStmt) Flow {
	var fl Flow
	if x.Init != nil {
		r := fx.execStmt(st, x.Init)
		fl.absorb(r)
		if r.normal == nil {
			return fl
		}
		st = r.normal
	}
	c := fx.evalTerm(st, x.Cond)
	if fx.isDead(st) {
		return fl
	}
	c = fx.defineBool("c", c)
	var outs []*State
	if c.S != "false" {
		s1 := st.clone()
		s1.branch(c)
		pre1 := s1.clone()
		r1, dead := fx.tryBranch(pre1, func() Flow { return fx.execBlock(s1, x.Body.List) })
		if !dead {
			fl.absorb(r1)
			outs = append(outs, r1.normal)
		}
	}
	if c.S != "true" {
		s2 := st.clone()
		s2.branch(Not(c))
		if x.Else != nil {
			pre2 := s2.clone()
			r2, dead := fx.tryBranch(pre2, func() Flow { return fx.execStmt(s2, x.Else) })
			if !dead {
				fl.absorb(r2)
				outs = append(outs, r2.normal)
			}
		} else {
			outs = append(outs, s2)
		}
	}
	fl.normal = fx.mergeStates(st, outs)
	return fl
}

func (fx *FuncCtx) defineBool(base string, c Term) Term {
	if len(c.S) < 60 {
		return c
	}
	name := fx.freshName(base)
	fx.decls = append(fx.decls, fmt.Sprintf("(define-fun %s () Bool %s)", name, c.S))
	fx.noteBoolDef(name, c.S)
	return Term{name, SBool}
}

func (fx *FuncCtx) execSwitch(st *State, x *ast.SwitchStmt) Flow {
	var fl Flow
	if x.Init != nil {
		r := fx.execStmt(st, x.Init)
		fl.absorb(r)
		if r.normal == nil {
			return fl
		}
		st = r.normal
	}
	var tag Val
	var tagT types.Type
	if x.Tag != nil {
		tag = fx.eval(st, x.Tag)
		tagT = fx.typeOf(x.Tag)
	}
	var outs []*State
	rest := st.clone() // state in which no earlier case matched
	var defaultClause *ast.CaseClause
	base := st
	matchedAll := false
	for _, cs := range x.Body.List {
		cc := cs.(*ast.CaseClause)
		if cc.List == nil {
			defaultClause = cc
			continue
		}
		var conds []Term
		for _, e := range cc.List {
			if tag != nil {
				v := fx.eval(rest, e)
				c := fx.binop(rest, token.EQL, tag, v, tagT, fx.typeOf(e), e)
				conds = append(conds, c.(Term))
			} else {
				conds = append(conds, fx.evalTerm(rest, e))
			}
		}
		c := fx.defineBool("sw", Or(conds...))
		if c.S == "false" {
			continue
		}
		s1 := rest.clone()
		s1.branch(c)
		r := fx.execCaseBody(s1, cc.Body)
		fl.absorb(r.fl)
		outs = append(outs, r.outs...)
		if c.S == "true" {
			matchedAll = true
			break
		}
		rest.branch(Not(c))
	}
	if matchedAll {
		fl.normal = fx.mergeStates(base, outs)
		return fl
	}
	if defaultClause != nil {
		r := fx.execCaseBody(rest, defaultClause.Body)
		fl.absorb(r.fl)
		outs = append(outs, r.outs...)
	} else {
		outs = append(outs, rest)
	}
	fl.normal = fx.mergeStates(base, outs)
	return fl
}

type caseResult struct {
	fl   Flow
	outs []*State
}

// execCaseBody runs a case body; unlabeled breaks terminate the switch.
func (fx *FuncCtx) execCaseBody(st *State, body []ast.Stmt) caseResult {
	for _, s := range body {
		if b, ok := s.(*ast.BranchStmt); ok && b.Tok == token.FALLTHROUGH {
			fx.unsupportedf("fallthrough")
		}
	}
	preC := st.clone()
	r, dead := fx.tryBranch(preC, func() Flow { return fx.execBlock(st, body) })
	var cr caseResult
	if dead {
		return cr
	}
	cr.outs = append(cr.outs, r.normal)
	for _, b := range r.breaks {
		if b.label == "" {
			cr.outs = append(cr.outs, b.st)
		} else {
			cr.fl.breaks = append(cr.fl.breaks, b)
		}
	}
	cr.fl.conts = r.conts
	return cr
}

func containsTerm(ts []Term, t Term) bool {
	for _, x := range ts {
		if x.S == t.S {
			return true
		}
	}
	return false
}

// tryBranch executes f on a branch state; if the branch leaves the supported
// subset but is infeasible under the current hypotheses, it is simply dead.
func (fx *FuncCtx) tryBranch(st *State, f func() Flow) (fl Flow, dead bool) {
	defer func() {
		if r := recover(); r != nil {
			u, ok := r.(unsupported)
			if !ok {
				panic(r)
			}
			if fx.infeasible(st) {
				fl, dead = Flow{}, true
				return
			}
			panic(u)
		}
	}()
	return f(), false
}
