#!/bin/sh
# Builds the verifier from the files on disk (offline).
export GOFLAGS=-mod=mod GOPROXY=off GOSUMDB=off GOTOOLCHAIN=local
cd "$(dirname "$0")/govc" || exit 2
mkdir -p ../bin
go build -o ../bin/govc . || exit 2
echo "govc built"
