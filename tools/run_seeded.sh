#!/bin/sh
# usage: tools/run_seeded.sh <seeded-id>...   (default: all)
# Applies each seeded change to a scratch worktree of /repo's HEAD (under /tmp, removed
# afterwards; /repo itself is never modified), runs the verifier on the functions the patch
# touches (hunk headers), and prints whether the change was detected.
export GOFLAGS=-mod=mod GOPROXY=off GOSUMDB=off GOTOOLCHAIN=local
cd /verif || exit 2
ids="$@"; [ -z "$ids" ] && ids=$(ls seeded)
wt=/tmp/seedwt.$$
git -C /repo worktree add -q --detach $wt HEAD || exit 2
trap 'git -C /repo worktree remove --force '$wt' 2>/dev/null' EXIT INT TERM
for id in $ids; do
  p=seeded/$id/patch.diff
  [ -f "$p" ] || continue
  funcs=$( (grep -o '^@@.*@@ func [^{]*' $p | sed -E 's/^@@.*@@ func (\([^)]*\) )?([A-Za-z0-9_]+).*/\2/'; grep -E '^[ +-]func ' $p | sed -E 's/^[ +-]func (\([^)]*\) )?([A-Za-z0-9_]+).*/\2/') | sort -u)
  git -C $wt apply /verif/$p || { echo "$id: patch does not apply"; continue; }
  res=""
  for f in $funcs; do
    out=$(./bin/govc verify -repo $wt -func ".$f" 2>&1 | grep -E "FAILED|OUTSIDE|^    failed |VACUITY" | head -3 | cut -c1-160)
    [ -n "$out" ] && res="$res
$out"
  done
  git -C $wt checkout -q -- . ; git -C $wt clean -fdq
  if [ -n "$res" ]; then echo "$id: DETECTED (functions: $(echo $funcs))$res"; else echo "$id: MISSED (functions: $(echo $funcs))"; fi
done
