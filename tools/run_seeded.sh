#!/bin/sh
# usage: tools/run_seeded.sh <seeded-id>...   (default: all)
# Applies each seeded change to /repo, runs the verifier on the functions the patch touches
# (hunk headers), undoes the change, and prints whether the change was detected.
export GOFLAGS=-mod=mod GOPROXY=off GOSUMDB=off GOTOOLCHAIN=local
cd /verif || exit 2
ids="$@"; [ -z "$ids" ] && ids=$(ls seeded)
for id in $ids; do
  p=seeded/$id/patch.diff
  [ -f "$p" ] || continue
  if ! git -C /repo diff --quiet; then echo "/repo has uncommitted tracked changes; refusing"; exit 2; fi
  funcs=$( (grep -o '^@@.*@@ func [^{]*' $p | sed -E 's/^@@.*@@ func (\([^)]*\) )?([A-Za-z0-9_]+).*/\2/'; grep -E '^[ +-]func ' $p | sed -E 's/^[ +-]func (\([^)]*\) )?([A-Za-z0-9_]+).*/\2/') | sort -u)
  git -C /repo apply /verif/$p || { echo "$id: patch does not apply"; continue; }
  res=""
  for f in $funcs; do
    out=$(./bin/govc verify -func ".$f" 2>&1 | grep -E "FAILED|OUTSIDE|^    failed " | head -3 | cut -c1-160)
    [ -n "$out" ] && res="$res
$out"
  done
  git -C /repo checkout -- .
  if [ -n "$res" ]; then echo "$id: DETECTED (functions: $(echo $funcs))$res"; else echo "$id: MISSED (functions: $(echo $funcs))"; fi
done
