#!/usr/bin/env python3
"""confirm_seed.py <worktree> <seed-out-dir> <dest-dir> <id>
Confirms a seeded change in a scratch worktree: the change compiles, the existing
tests of the touched packages pass with it, the demonstration fails with it and
passes without it. On success copies patch.diff, the demo and meta.json to dest."""
import sys, os, re, subprocess, json, shutil
wt, out, dest, sid = sys.argv[1:5]
env = dict(os.environ, GOFLAGS="-mod=mod", GOPROXY="off", GOSUMDB="off", GOTOOLCHAIN="local")
def run(cmd, timeout=1500):
    p = subprocess.run(cmd, shell=True, cwd=wt, env=env, capture_output=True, text=True, timeout=timeout)
    return p.returncode, (p.stdout + p.stderr)[-3000:]
patch = os.path.join(out, "patch.diff")
demo = [f for f in os.listdir(out) if f.startswith("demo")][0]
demo_src = open(os.path.join(out, demo)).read()
head = demo_src[:3000]
m = re.search(r'([\w/\.-]+/zz_\w*demo\w*_test\.go|[\w/\.-]+_test\.go)', head)
place = m.group(1) if m else None
cmds = re.findall(r'(go test [^\n`"]+)', head)
cmd = re.split(r'\s{2,}|\(', cmds[0].strip())[0].strip().rstrip('.)') if cmds else None
if not place or not cmd:
    print("cannot parse demo header", place, cmd); sys.exit(2)
place = place.lstrip('/')
if place.startswith('tmp/'):
    place = re.sub(r'^tmp/seed_\w+/', '', place)
files = re.findall(r'^\+\+\+ b/(\S+)', open(patch).read(), re.M)
pkgs = sorted({'./' + os.path.dirname(f) for f in files})
log = {"id": sid, "demo_placed_at": place, "demo_cmd": cmd, "packages": pkgs}
run("git checkout -- . && git clean -fdq -e out")
rc, o = run(f"git apply {patch}")
if rc: print("patch does not apply", o); sys.exit(1)
rc, o = run("go build ./... && go vet -vet=off ./... 2>/dev/null; go build ./...")
log["builds"] = rc == 0
tests = " ".join(pkgs)
rc1, o1 = run(f"go test -count=1 {tests}")
rc2, o2 = run(f"go test -count=1 -tags noasm {tests}")
log["existing_tests_pass_with_change"] = (rc1 == 0 and rc2 == 0)
shutil.copy(os.path.join(out, demo), os.path.join(wt, place))
rcw, ow = run(cmd)
log["demo_fails_with_change"] = rcw != 0
log["demo_output_with_change"] = ow[-600:]
run("git checkout -- .")
rcn, on = run(cmd)
log["demo_passes_without_change"] = rcn == 0
os.remove(os.path.join(wt, place))
ok = log["builds"] and log["existing_tests_pass_with_change"] and log["demo_fails_with_change"] and log["demo_passes_without_change"]
log["confirmed"] = ok
print(json.dumps({k: v for k, v in log.items() if k != "demo_output_with_change"}))
if ok:
    os.makedirs(dest, exist_ok=True)
    shutil.copy(patch, os.path.join(dest, "patch.diff"))
    shutil.copy(os.path.join(out, demo), os.path.join(dest, demo))
    meta = json.load(open(os.path.join(out, "meta.json")))
    meta["confirmation"] = log
    json.dump(meta, open(os.path.join(dest, "meta.json"), "w"), indent=1)
sys.exit(0 if ok else 1)
